// Package mon holds the monitors: tree auditor, chunk/fault readers, retention meter.
package mon

import (
	"fmt"

	"github.com/jf-tech/omniparser/idr"
)

// AuditTree walks the whole tree under root and checks that parent / first / last / sibling links are mutually
// consistent, acyclic and unshared. It returns the nodes visited (document order) and the first problem found ("" if none).
func AuditTree(root *idr.Node, limit int) (nodes []*idr.Node, problem string) {
	seen := map[*idr.Node]bool{}
	var walk func(n *idr.Node, depth int) string
	walk = func(n *idr.Node, depth int) string {
		if seen[n] {
			return fmt.Sprintf("node %p (%s %q) reachable twice: cycle or shared subtree", n, n.Type, n.Data)
		}
		seen[n] = true
		nodes = append(nodes, n)
		if len(nodes) > limit {
			return fmt.Sprintf("more than %d nodes reachable: runaway structure", limit)
		}
		if (n.FirstChild == nil) != (n.LastChild == nil) {
			return fmt.Sprintf("node %q: FirstChild/LastChild nil-ness disagree", n.Data)
		}
		if n.FirstChild != nil && n.FirstChild.PrevSibling != nil {
			return fmt.Sprintf("node %q: FirstChild has a PrevSibling", n.Data)
		}
		if n.LastChild != nil && n.LastChild.NextSibling != nil {
			return fmt.Sprintf("node %q: LastChild has a NextSibling", n.Data)
		}
		var prev *idr.Node
		for c := n.FirstChild; c != nil; c = c.NextSibling {
			if c.Parent != n {
				return fmt.Sprintf("child %q of %q has Parent %p, want %p", c.Data, n.Data, c.Parent, n)
			}
			if c.PrevSibling != prev {
				return fmt.Sprintf("child %q of %q: PrevSibling does not mirror the predecessor's NextSibling", c.Data, n.Data)
			}
			if c.NextSibling == nil && n.LastChild != c {
				return fmt.Sprintf("node %q: LastChild is not the end of the sibling chain", n.Data)
			}
			if p := walk(c, depth+1); p != "" {
				return p
			}
			prev = c
		}
		return ""
	}
	if root == nil {
		return nil, "nil root"
	}
	if root.Parent != nil {
		return nil, "root has a parent"
	}
	if root.PrevSibling != nil || root.NextSibling != nil {
		return nil, "root has siblings"
	}
	problem = walk(root, 0)
	return nodes, problem
}

// RootOf follows Parent links to the root (bounded, to survive cycles).
func RootOf(n *idr.Node) *idr.Node {
	for i := 0; n.Parent != nil && i < 1000000; i++ {
		n = n.Parent
	}
	return n
}
