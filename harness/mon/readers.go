package mon

import (
	"errors"
	"fmt"
	"io"
	"unicode/utf8"

	"verif/harness/core"
)

// ChunkReader delivers a fixed byte string according to a schedule of chunk sizes. It obeys the io.Reader contract:
// never more than len(p) bytes, (0,nil) only occasionally and never more than 3 times in a row, io.EOF repeated forever.
type ChunkReader struct {
	data        []byte
	pos         int
	sizes       func() int // next chunk size (>=0); 0 means an empty read
	eofWithData bool       // return the final bytes together with io.EOF
	zeros       int
	// observations
	Calls         int
	CallsAfterEOF int
	EmptyReads    int
	SplitRune     int // chunk boundaries that fell inside a multi-byte rune
	SplitCRLF     int // boundaries between \r and \n
	Boundaries    map[int]bool
	SpinLimit     int // panic with ErrSpin after this many calls past EOF (0 = off)
}

// ErrSpin is the sentinel panic value of the spin detector.
type ErrSpin struct{ Calls int }

func (e ErrSpin) Error() string { return "reader polled after EOF too many times" }

// NewChunkReader creates a reader over data with the given size schedule.
func NewChunkReader(data []byte, sizes func() int, eofWithData bool) *ChunkReader {
	return &ChunkReader{data: data, sizes: sizes, eofWithData: eofWithData, Boundaries: map[int]bool{}}
}

func (c *ChunkReader) Read(p []byte) (int, error) {
	c.Calls++
	if c.pos >= len(c.data) {
		c.CallsAfterEOF++
		if c.SpinLimit > 0 && c.CallsAfterEOF > c.SpinLimit {
			panic(ErrSpin{c.CallsAfterEOF})
		}
		return 0, io.EOF
	}
	if len(p) == 0 {
		return 0, nil
	}
	n := c.sizes()
	if n == 0 {
		if c.zeros < 3 {
			c.zeros++
			c.EmptyReads++
			return 0, nil
		}
		n = 1
	}
	c.zeros = 0
	if n > len(p) {
		n = len(p)
	}
	if n > len(c.data)-c.pos {
		n = len(c.data) - c.pos
	}
	copy(p, c.data[c.pos:c.pos+n])
	c.pos += n
	if c.pos < len(c.data) {
		c.Boundaries[c.pos] = true
		if !utf8.RuneStart(c.data[c.pos]) {
			c.SplitRune++
		}
		if c.data[c.pos] == '\n' && c.data[c.pos-1] == '\r' {
			c.SplitCRLF++
		}
	}
	if c.pos >= len(c.data) && c.eofWithData {
		return n, io.EOF
	}
	return n, nil
}

// Schedule kinds for NewSchedule.
var ScheduleKinds = []string{"one-byte", "small", "large", "zeros", "eof-with-data", "whole", "primes", "split-marks", "lines-eof-with-data"}

// NewSchedule builds a chunk reader of the named kind. marks are byte offsets the "split-marks" schedule forces
// boundaries at (inside runes, escape pairs, delimiters, CRLF pairs, the BOM).
func NewSchedule(kind string, data []byte, r *core.Rand, marks []int) *ChunkReader {
	switch kind {
	case "one-byte":
		return NewChunkReader(data, func() int { return 1 }, false)
	case "small":
		return NewChunkReader(data, func() int { return r.Range(1, 7) }, false)
	case "large":
		return NewChunkReader(data, func() int { return r.Range(1, 9000) }, r.Bool())
	case "zeros":
		return NewChunkReader(data, func() int {
			if r.Chance(1, 3) {
				return 0
			}
			return r.Range(1, 5)
		}, false)
	case "eof-with-data":
		return NewChunkReader(data, func() int { return r.Range(1, 64) }, true)
	case "lines-eof-with-data":
		// one line (up to and including its line feed) per Read, the last one together with io.EOF
		var cr *ChunkReader
		cr = NewChunkReader(data, func() int {
			for i := cr.pos; i < len(data); i++ {
				if data[i] == '\n' {
					return i + 1 - cr.pos
				}
			}
			return len(data) - cr.pos
		}, true)
		return cr
	case "whole":
		return NewChunkReader(data, func() int { return 1 << 30 }, false)
	case "primes":
		ps := []int{2, 3, 5, 7, 11, 13, 4093, 4099}
		i := 0
		return NewChunkReader(data, func() int { i++; return ps[i%len(ps)] }, false)
	case "split-marks":
		// deliver up to the next mark exactly, so that every mark is a boundary
		var cr *ChunkReader
		mi := 0
		cr = NewChunkReader(data, func() int {
			for mi < len(marks) && marks[mi] <= cr.pos {
				mi++
			}
			if mi < len(marks) {
				return marks[mi] - cr.pos
			}
			return r.Range(1, 50)
		}, r.Bool())
		return cr
	}
	return NewChunkReader(data, func() int { return 1 << 30 }, false)
}

// InterestingMarks returns offsets inside multi-byte runes, between CR and LF, after each of the given special bytes,
// and inside a leading BOM.
func InterestingMarks(data []byte, specials string) []int {
	var m []int
	for i := 1; i < len(data); i++ {
		switch {
		case !utf8.RuneStart(data[i]):
			m = append(m, i)
		case data[i] == '\n' && data[i-1] == '\r':
			m = append(m, i)
		default:
			for j := 0; j < len(specials); j++ {
				if data[i-1] == specials[j] || data[i] == specials[j] {
					m = append(m, i)
					break
				}
			}
		}
	}
	return m
}

// ErrInjected is the error a FaultReader fails with.
var ErrInjected = errors.New("injected I/O failure")

// ErrInjectedWrappingEOF is a failure whose cause is an unexpected end of the underlying stream, reported the way wrapping libraries do:
// it is not io.EOF (== fails) although errors.Is(err, io.EOF) holds. To an io.Reader consumer it is an error like any other.
var ErrInjectedWrappingEOF = fmt.Errorf("injected I/O failure (connection closed): %w", io.EOF)

// FaultReader delivers data[0:k) (chunked), then fails.
type FaultReader struct {
	data  []byte
	pos   int
	k     int    // fault offset
	kind  string // "persistent" | "transient" | "with-data" | "transient-with-data"
	sizes func() int
	// transient: after the first failure deliver `extra` more bytes, then fail forever
	extra      int
	failed     int
	delivered  int
	Calls      int
	FaultCalls int
	SpinLimit  int
	Err        error // the failure (ErrInjected if nil)
}

func (f *FaultReader) err() error {
	if f.Err != nil {
		return f.Err
	}
	return ErrInjected
}

// NewFaultReader creates a reader that fails at offset k.
func NewFaultReader(data []byte, k int, kind string, sizes func() int, extra int) *FaultReader {
	return &FaultReader{data: data, k: k, kind: kind, sizes: sizes, extra: extra}
}

func (f *FaultReader) Read(p []byte) (int, error) {
	f.Calls++
	if len(p) == 0 {
		return 0, nil
	}
	limit := f.k
	if (f.kind == "transient" || f.kind == "transient-with-data") && f.failed > 0 {
		limit = f.k + f.extra
	}
	if limit > len(f.data) {
		limit = len(f.data)
	}
	if f.pos >= limit {
		// the fault point
		if f.kind == "transient" && f.failed == 0 {
			f.failed++
			f.FaultCalls++
			return 0, f.err()
		}
		f.failed++
		f.FaultCalls++
		if f.SpinLimit > 0 && f.FaultCalls > f.SpinLimit {
			panic(ErrSpin{f.FaultCalls})
		}
		return 0, f.err()
	}
	n := f.sizes()
	if n < 1 {
		n = 1
	}
	if n > len(p) {
		n = len(p)
	}
	if n > limit-f.pos {
		n = limit - f.pos
	}
	copy(p, f.data[f.pos:f.pos+n])
	f.pos += n
	if f.kind == "transient-with-data" && f.failed == 0 && f.pos >= limit {
		// data and the failure in the same call; the reader then works again for `extra` bytes before it fails for good
		f.failed++
		f.FaultCalls++
		return n, f.err()
	}
	if f.kind == "with-data" && f.pos >= limit {
		f.failed++
		f.FaultCalls++
		return n, f.err()
	}
	return n, nil
}

// Faulted reports whether the fault has been handed to the consumer at least once.
func (f *FaultReader) Faulted() bool { return f.failed > 0 }
