package props

import (
	"bytes"
	"regexp"
	"strings"

	"github.com/jf-tech/omniparser"

	"verif/harness/core"
	"verif/harness/gen"
	"verif/harness/mon"
	"verif/harness/omni"
)

// C09 — results do not depend on how the input reader delivers its bytes.

func init() {
	core.Register(&core.Prop{
		ID:    "C09",
		Level: "exploration",
		Rule: "each case = one (schema, input) pair of one of the seven formats (well-formed or mutated: truncated, byte-flipped, spliced; with/without BOM, " +
			"CRLF, final terminator; utf-8/iso-8859-1/windows-1252; replace_double_quotes / ignore_crlf wrappers; records straddling 4096/8192/65536 " +
			"buffer edges) run under bytes.Reader and under 8 delivery schedules (one byte, small, large, interleaved empty reads, data+EOF, primes, " +
			"boundaries forced inside runes/CRLF/delimiters/BOM). Transcripts (bytes, error type and text, checksums) must be identical; only the " +
			"'rough' line number of json/xml error prefixes is masked. Also a line-per-Read schedule whose last line arrives together with io.EOF. distinct = digest(input, schedule); non-trivial = >=1 record or error and >=2 chunks.",
		Assumptions: []string{
			"the chunk reader obeys the io.Reader contract (never more than 3 consecutive empty reads)",
			"json/xml error line numbers are documented as rough (decoder read-ahead) and masked; everything else is compared verbatim",
		},
		Cases: func(t core.Tier) int {
			if t == core.Thorough {
				return 60000
			}
			return 1400
		},
		Run: runC09,
		Min: func(t core.Tier) map[string]int64 {
			return map[string]int64{"pairs": 6000, "split_inside_rune": 500, "split_crlf": 100, "transcripts_with_error": 300, "big_inputs": 30, "bom_inputs": 50}
		},
	})
}

var lineMaskRe = regexp.MustCompile(`(before/near|near) line \d+`)

func maskLines(t omni.Transcript, format string) omni.Transcript {
	if format != "json" && format != "xml" {
		return t
	}
	out := make(omni.Transcript, len(t))
	for i, s := range t {
		s.ErrMsg = lineMaskRe.ReplaceAllString(s.ErrMsg, "line N")
		out[i] = s
	}
	return out
}

// mutateInput derives a malformed variant.
func mutateInput(r *core.Rand, in []byte) ([]byte, string) {
	if len(in) < 4 {
		return in, "none"
	}
	out := append([]byte{}, in...)
	switch r.Intn(6) {
	case 0:
		return out[:r.Intn(len(out))], "truncated"
	case 1:
		i := r.Intn(len(out))
		out[i] ^= byte(1 << uint(r.Intn(8)))
		return out, "byteflip"
	case 2:
		i, j := r.Intn(len(out)), r.Intn(len(out))
		if i > j {
			i, j = j, i
		}
		return append(out[:i], out[j:]...), "deleted-slice"
	case 3:
		i, j := r.Intn(len(out)), r.Intn(len(out))
		if i > j {
			i, j = j, i
		}
		dup := append([]byte{}, out[i:j]...)
		return append(out[:j], append(dup, out[j:]...)...), "duplicated-slice"
	case 4:
		i := r.Intn(len(out))
		ins := []byte(r.Pick("\"", "\r", "\n", "\r\n", "?", "*", "~", "<", "{", "\\", "\xff", "\x00", "&", "]]>"))
		return append(out[:i], append(ins, out[i:]...)...), "inserted-special"
	default:
		return append(out, out...), "concatenated"
	}
}

type c09Case struct {
	kit    *gen.Kit
	format string
	mode   string
	schema []byte
	input  []byte
	desc   []string
}

func genFormatCase(c *core.Ctx, r *core.Rand, format string, allowMalformed bool) *c09Case {
	k := gen.NewKit(r, format)
	cs := &c09Case{kit: k, format: format}
	if r.Chance(1, 4) {
		k.Encoding = r.Pick("iso-8859-1", "windows-1252", "utf-8")
		cs.desc = append(cs.desc, "encoding="+k.Encoding)
	}
	big := r.Chance(1, 12)
	if big && k.Widths != nil {
		k.Widen([]int{4080, 4090, 4096, 8190, 65530, 66000}[r.Intn(6)])
	}
	n := r.Range(1, 25)
	var recs []gen.Rec
	for i := 0; i < n; i++ {
		rec := k.GenRec(r, i)
		if r.Chance(1, 6) {
			rec.Num = "x" // fails under ModeFailing
		}
		if r.Chance(1, 8) {
			rec.Num = "0"
		}
		if r.Chance(1, 10) {
			rec.Num = r.Pick("NaN", "Inf", "-Inf", "1e999", "1.5", "0x1p-2")
		}
		if big && k.Widths == nil && i%3 == 0 {
			rec.F[len(rec.F)-1] = strings.Repeat(k.GenVal(r, 8)+"é", []int{450, 910, 7300}[r.Intn(3)])
		}
		recs = append(recs, rec)
	}
	if big {
		cs.desc = append(cs.desc, "big")
		c.Inc("big_inputs")
	}
	cs.mode = r.Pick(gen.ModePass, gen.ModeFailing, gen.ModeFilter, gen.ModeCopy, gen.ModeRich, gen.ModeFloat)
	if cs.mode == gen.ModeFilter && r.Chance(1, 3) {
		// a target filter that compares numerically; some records carry "x", "NaN", ... there
		k.Filter = r.Pick("n >= 1", "not(n < 1)", "n > 0 or n = 'x'")
	}
	cs.schema = k.Schema(cs.mode)
	o := gen.RenderOpts{NoFinalTerminator: r.Chance(1, 3), BlankLines: r.Chance(1, 3), CRLF: r.Chance(1, 3), BOM: r.Chance(1, 5)}
	if o.BOM {
		c.Inc("bom_inputs")
		cs.desc = append(cs.desc, "bom")
	}
	if o.CRLF {
		cs.desc = append(cs.desc, "crlf")
	}
	cs.input = k.Render(r, recs, o)
	if allowMalformed && r.Chance(1, 3) {
		var how string
		cs.input, how = mutateInput(r, cs.input)
		cs.desc = append(cs.desc, "mutated:"+how)
		c.Inc("mutated:" + how)
	}
	return cs
}

func runOnce(s omniparser.Schema, rd interface{ Read([]byte) (int, error) }) omni.Transcript {
	return omni.RunAll(s, rd, omni.RunOpts{MaxReads: 5000, ExtraReads: 2})
}

func runC09(c *core.Ctx) {
	r := c.R
	format := gen.Formats[c.Idx%len(gen.Formats)]
	cs := genFormatCase(c, r, format, true)
	s, err := omni.NewSchema(cs.schema)
	if err != nil {
		c.Inconclusive("kit schema rejected: " + err.Error())
		return
	}
	base := maskLines(runOnce(s, bytes.NewReader(cs.input)), format)
	c.Inc("inputs")
	c.Inc("inputs:" + format)
	hasErr := false
	for _, st := range base {
		if st.Class == omni.FAIL || st.Class == omni.FATAL {
			hasErr = true
		}
	}
	if hasErr {
		c.Inc("transcripts_with_error")
	}
	for _, st := range base {
		if st.Class == omni.OK {
			c.Inc("ok_records:" + format)
		}
	}
	if cs.kit.Rows > 1 {
		c.Inc("multiline_record_inputs:" + format)
	}
	specials := ",\"|;\t*~?:'<>&{}[]\\"
	marks := mon.InterestingMarks(cs.input, specials)
	if len(marks) > 4000 {
		// thin out
		var m2 []int
		for i := 0; i < len(marks); i += len(marks)/4000 + 1 {
			m2 = append(m2, marks[i])
		}
		marks = m2
	}
	if len(cs.input) >= 3 && cs.input[0] == 0xef {
		marks = append([]int{1, 2, 3}, marks...)
	}
	for _, kind := range mon.ScheduleKinds {
		if kind == "one-byte" && len(cs.input) > 200000 {
			continue
		}
		cr := mon.NewSchedule(kind, cs.input, r.Fork(), marks)
		got := maskLines(runOnce(s, cr), format)
		c.Inc("pairs")
		c.Inc("evaluations")
		c.Inc("schedule:" + kind)
		c.Count("split_inside_rune", int64(cr.SplitRune))
		c.Count("split_crlf", int64(cr.SplitCRLF))
		c.Count("empty_reads", int64(cr.EmptyReads))
		c.Count("chunks", int64(cr.Calls))
		if len(cr.Boundaries) >= 1 && len(base) > 1 {
			c.Distinct(string(cs.input), kind, string(cs.schema))
		}
		if got.String() != base.String() {
			i := 0
			for i < len(got) && i < len(base) && got[i] == base[i] {
				i++
			}
			var gs, bs interface{}
			if i < len(got) {
				gs = got[i]
			}
			if i < len(base) {
				bs = base[i]
			}
			c.Violate("C09:"+format+":"+kind+":"+c09DiffClass(got, base, i), "Read results depend on how the reader delivers the bytes",
				map[string]interface{}{"format": format, "schedule": kind, "schema": string(cs.schema), "input": core.Trunc(string(cs.input), 4000), "input_len": len(cs.input),
					"desc": cs.desc, "first_difference_at_step": i, "whole_delivery": bs, "chunked_delivery": gs,
					"classes_whole": core.Trunc(base.Classes(), 300), "classes_chunked": core.Trunc(got.Classes(), 300)})
		}
	}
	if c.Idx < 14 {
		c.Sample(map[string]interface{}{"format": format, "desc": cs.desc, "mode": cs.mode, "input": core.Trunc(string(cs.input), 200), "classes": core.Trunc(base.Classes(), 100)})
	}
}

func c09DiffClass(got, base omni.Transcript, i int) string {
	switch {
	case i >= len(got) || i >= len(base):
		return "length"
	case got[i].Class != base[i].Class:
		return "class:" + base[i].Class + "->" + got[i].Class
	case got[i].Bytes != base[i].Bytes:
		return "bytes"
	case got[i].ErrMsg != base[i].ErrMsg:
		return "error-text"
	case got[i].Checksum != base[i].Checksum:
		return "checksum"
	}
	return "other"
}
