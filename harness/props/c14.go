package props

import (
	"bytes"
	"encoding/json"
	"fmt"
	"io"
	"runtime"
	"sort"
	"sync"
	"sync/atomic"
	"time"

	"github.com/jf-tech/omniparser"
	"github.com/jf-tech/omniparser/idr"
	"github.com/jf-tech/omniparser/transformctx"

	"verif/harness/core"
	"verif/harness/gen"
	"verif/harness/mon"
	"verif/harness/omni"
)

// C14 — schemas and process-wide state are safe to share between goroutines.

func init() {
	core.Register(&core.Prop{
		ID:    "C14",
		Level: "exploration",
		Race:  true,
		Rule: "each case = one arena: 2-4 Schema objects (all formats; pass-through, failing, target filter, rich with templates / custom functions / " +
			"javascript / javascript_with_context, nested xml/json with ancestor paths) and 10-40 jobs (schema, input). Serial transcripts are computed " +
			"first; then G in {2,8,32,128} goroutines x GOMAXPROCS in {1,2,4,16} each run a shuffled job list with their own Transform and context over the " +
			"SHARED Schema objects (same schema on many goroutines and different schemas mixed); every transcript must equal its serial twin byte for byte " +
			"(checksums included) and the Go race detector must stay silent. Delays are injected only at real suspension points: the harness io.Reader " +
			"yields / sleeps at random chunk boundaries and the vf_yield custom function yields in the middle of a record's evaluation. " +
			"Two more phases per arena: (a) a sliding window of 2-4 live transforms advanced in turns in ONE goroutine, new ones created as others end; (b) cold start: a schema whose xpath / script strings the process has never seen, first used by 2-8 goroutines released together, compared with the same transform alone afterwards. A ledger of the node IDs in the record trees the goroutines currently hold asserts that no ID is carried by two live nodes. " +
			"distinct = digest(arena, G, GOMAXPROCS); non-trivial = >=2 goroutines ran the same Schema object concurrently.",
		Assumptions: []string{
			"one Transform per goroutine (sharing a Transform is documented as unsupported); concurrent NewSchema calls are not part of the statement",
			"the race detector only sees the interleavings that occurred; the evidence reports yields injected and distinct goroutine-stamp windows as a proxy",
		},
		Cases: func(t core.Tier) int {
			if t == core.Thorough {
				return 1600
			}
			return 64
		},
		Run:      runC14,
		Parallel: 4,
		Batch:    func(t core.Tier) int { return 4 },
		Min: func(t core.Tier) map[string]int64 {
			return map[string]int64{"concurrent_jobs": 1500, "records_compared": 10000, "yields_injected": 5000, "jobs_on_shared_schema": 1000, "schemas_with_js": 20,
				"distinct_stamp_windows": 200}
		},
	})
}

type stampLog struct {
	mu     sync.Mutex
	stamps []int32
}

func (s *stampLog) add(g int) {
	s.mu.Lock()
	if len(s.stamps) < 200000 {
		s.stamps = append(s.stamps, int32(g))
	}
	s.mu.Unlock()
}

func (s *stampLog) windows() int {
	s.mu.Lock()
	defer s.mu.Unlock()
	seen := map[[4]int32]struct{}{}
	for i := 0; i+4 <= len(s.stamps); i++ {
		var w [4]int32
		copy(w[:], s.stamps[i:i+4])
		seen[w] = struct{}{}
	}
	return len(seen)
}

// yieldReader delivers data in random chunks and yields the processor at chunk boundaries.
type yieldReader struct {
	data  []byte
	pos   int
	r     *core.Rand
	g     int
	log   *stampLog
	yield int
}

func (y *yieldReader) Read(p []byte) (int, error) {
	if y.pos >= len(y.data) {
		return 0, io.EOF
	}
	n := y.r.Range(1, 64)
	if y.r.Chance(1, 8) {
		n = y.r.Range(64, 5000)
	}
	if n > len(p) {
		n = len(p)
	}
	if n > len(y.data)-y.pos {
		n = len(y.data) - y.pos
	}
	copy(p, y.data[y.pos:y.pos+n])
	y.pos += n
	if y.r.Chance(1, 3) {
		y.yield++
		y.log.add(y.g)
		if y.r.Chance(1, 20) {
			time.Sleep(time.Duration(y.r.Range(50, 500)) * time.Microsecond)
		} else {
			runtime.Gosched()
		}
	}
	return n, nil
}

type c14Job struct {
	schema int
	input  []byte
	serial omni.Transcript
}

// idLedger watches the node IDs of the trees the goroutines currently hold: node IDs key process-wide and per-record caches, so an ID
// must never be carried by two live nodes. hold(g, n) replaces what goroutine g holds by the tree n belongs to (nil: nothing).
type idLedger struct {
	mu         sync.Mutex
	owner      map[int64]int
	mine       map[int][]int64
	registered int64
	peak       int
	dups       []idDup
}

type idDup struct {
	id   int64
	a, b int
}

func (l *idLedger) hold(g int, n *idr.Node) {
	l.mu.Lock()
	defer l.mu.Unlock()
	for _, id := range l.mine[g] {
		delete(l.owner, id)
	}
	l.mine[g] = l.mine[g][:0]
	if n == nil {
		return
	}
	var walk func(x *idr.Node)
	walk = func(x *idr.Node) {
		if o, taken := l.owner[x.ID]; taken && len(l.dups) < 4 {
			l.dups = append(l.dups, idDup{x.ID, o, g})
		}
		l.owner[x.ID] = g
		l.mine[g] = append(l.mine[g], x.ID)
		l.registered++
		for ch := x.FirstChild; ch != nil; ch = ch.NextSibling {
			walk(ch)
		}
	}
	walk(mon.RootOf(n))
	if len(l.owner) > l.peak {
		l.peak = len(l.owner)
	}
}

func runC14(c *core.Ctx) {
	r := c.R
	ns := r.Range(2, 4)
	type sch struct {
		s      omniparser.Schema
		text   []byte
		kit    *gen.Kit
		nested string
		format string
	}
	var schemas []sch
	for len(schemas) < ns {
		var e sch
		if r.Chance(1, 3) {
			e.nested = r.Pick("xml", "json")
			e.format = e.nested
			nw := gen.GenNested(r, e.nested, 1, 2, false)
			decls, stats := gen.GenRichDecls(r, nw.Vocab(), gen.RichOpts{MaxDepth: 4, JS: true, AllowUp: true, HarnessFns: true, Copy: true, Externals: []string{"ext1"}})
			decls["FINAL_OUTPUT"].(gen.D)["xpath"] = nw.Target
			decls["FINAL_OUTPUT"].(gen.D)["object"].(gen.D)["yield"] = gen.D{"custom_func": gen.D{"name": "vf_yield", "args": []interface{}{gen.D{"xpath": "id"}}}}
			doc := map[string]interface{}{"parser_settings": map[string]interface{}{"version": "omni.2.1", "file_format_type": e.nested}, "transform_declarations": decls}
			e.text, _ = json.Marshal(doc)
			if stats["fn:javascript"]+stats["fn:javascript_with_context"] > 0 {
				c.Inc("schemas_with_js")
			}
		} else {
			e.format = gen.Formats[r.Intn(len(gen.Formats))]
			e.kit = gen.NewKit(r, e.format)
			mode := r.Pick(gen.ModeRich, gen.ModeRich, gen.ModeFilter, gen.ModeFailing, gen.ModeCopy)
			if mode == gen.ModeRich {
				c.Inc("schemas_with_js")
			}
			var doc map[string]interface{}
			json.Unmarshal(e.kit.Schema(mode), &doc)
			if mode != gen.ModeCopy {
				fo := doc["transform_declarations"].(map[string]interface{})["FINAL_OUTPUT"].(map[string]interface{})
				fo["object"].(map[string]interface{})["yield"] = map[string]interface{}{"custom_func": map[string]interface{}{"name": "vf_yield", "args": []interface{}{map[string]interface{}{"xpath": "id"}}}}
			}
			e.text, _ = json.Marshal(doc)
		}
		// every schema of the arena renders an epoch in its own time zone (process-wide zone caches are shared by all of them)
		{
			var doc map[string]interface{}
			if json.Unmarshal(e.text, &doc) == nil {
				if fo, ok := doc["transform_declarations"].(map[string]interface{})["FINAL_OUTPUT"].(map[string]interface{}); ok {
					if obj, ok := fo["object"].(map[string]interface{}); ok {
						zone := []string{"America/New_York", "Asia/Tokyo", "Europe/Berlin", "Australia/Adelaide", "Asia/Kolkata", "America/Sao_Paulo", "UTC"}[(c.Idx+len(schemas))%7]
						obj["when"] = map[string]interface{}{"custom_func": map[string]interface{}{"name": "epochToDateTimeRFC3339", "args": []interface{}{
							map[string]interface{}{"const": "1234567890"}, map[string]interface{}{"const": "SECOND"}, map[string]interface{}{"const": zone}}}}
						if b, err := json.Marshal(doc); err == nil {
							e.text = b
						}
					}
				}
			}
		}
		s, err := omni.NewSchema(e.text)
		if err != nil {
			c.Inc("schema_rejected")
			continue
		}
		e.s = s
		schemas = append(schemas, e)
		c.Inc("schemas:" + e.format)
	}
	nj := r.Range(10, 40)
	var jobs []*c14Job
	ext := map[string]string{"ext1": "E1"}
	for i := 0; i < nj; i++ {
		si := r.Intn(len(schemas))
		e := schemas[si]
		var input []byte
		if e.nested != "" {
			input = gen.GenNested(r, e.nested, r.Range(1, 4), 6, r.Bool()).Input
		} else {
			var recs []gen.Rec
			for k := 0; k < r.Range(1, 25); k++ {
				rec := e.kit.GenRec(r, k)
				if r.Chance(1, 6) {
					rec.Num = "x"
				}
				if r.Chance(1, 8) {
					rec.Num = "0"
				}
				recs = append(recs, rec)
			}
			input = e.kit.Render(r, recs, gen.RenderOpts{BlankLines: r.Chance(1, 3)})
			if r.Chance(1, 8) {
				input, _ = mutateInput(r, input)
			}
		}
		j := &c14Job{schema: si, input: input}
		j.serial = maskLines(omni.RunAll(e.s, bytes.NewReader(input), omni.RunOpts{MaxReads: 3000, ExtraReads: 1, Ext: ext}), e.format)
		jobs = append(jobs, j)
	}
	c14Interleaved(c, r, len(jobs), func(i int) (omniparser.Schema, []byte, omni.Transcript, string, []byte) {
		e := schemas[jobs[i].schema]
		return e.s, jobs[i].input, jobs[i].serial, e.format, e.text
	}, ext)
	for round := 0; round < 4; round++ {
		c14ColdStart(c, r, ext) // each round: a new schema with strings no cache has seen, first used by all goroutines at once
	}
	G := []int{2, 8, 32}[r.Intn(3)]
	if c.Tier == core.Thorough && r.Chance(1, 4) {
		G = 128
	}
	procs := []int{1, 2, 4, 16}[r.Intn(4)]
	old := runtime.GOMAXPROCS(procs)
	defer runtime.GOMAXPROCS(old)
	log := &stampLog{}
	ledger := &idLedger{owner: map[int64]int{}, mine: map[int][]int64{}}
	var wg sync.WaitGroup
	type mismatch struct {
		g, job, step int
		got, want    interface{}
	}
	var mu sync.Mutex
	var mism []mismatch
	var yields, recs, ran int64
	perG := len(jobs)
	if G > 8 {
		perG = len(jobs) / 2
	}
	for g := 0; g < G; g++ {
		wg.Add(1)
		gr := r.Fork()
		go func(g int) {
			defer wg.Done()
			order := gr.Perm(len(jobs))[:perG]
			for _, ji := range order {
				j := jobs[ji]
				yr := &yieldReader{data: j.input, r: gr.Fork(), g: g, log: log}
				got := maskLines(omni.RunAll(schemas[j.schema].s, yr, omni.RunOpts{MaxReads: 3000, ExtraReads: 1, Ext: ext,
					OnRecord: func(n *idr.Node) { ledger.hold(g, n) }}), schemas[j.schema].format)
				mu.Lock()
				yields += int64(yr.yield)
				recs += int64(len(got))
				ran++
				if got.String() != j.serial.String() && len(mism) < 4 {
					i := firstDiff(got, j.serial)
					mism = append(mism, mismatch{g, ji, i, stepAt(got, i), stepAt(j.serial, i)})
				}
				mu.Unlock()
			}
		}(g)
	}
	wg.Wait()
	c.Count("live_node_ids_registered", ledger.registered)
	c.Count("max:live_node_ids_at_once", int64(ledger.peak))
	for _, d := range ledger.dups {
		c.Violate("C14:node-id-shared-by-live-nodes", "two nodes that are live at the same time (in the record trees two goroutines currently hold, or twice in one tree) carry the same node ID",
			map[string]interface{}{"goroutines": G, "gomaxprocs": procs, "node_id": d.id, "held_by_goroutine": d.a, "also_seen_by_goroutine": d.b})
		break
	}
	c.Count("concurrent_jobs", ran)
	c.Count("evaluations", ran)
	c.Count("records_compared", recs)
	c.Count("yields_injected", yields)
	c.Count("jobs_on_shared_schema", ran) // every schema object is shared by all goroutines of the arena
	c.Count("distinct_stamp_windows", int64(log.windows()))
	c.Inc(fmt.Sprintf("arenas:G=%d,procs=%d", G, procs))
	c.Distinct(fmt.Sprint(c.Idx, G, procs))
	for _, m := range mism {
		j := jobs[m.job]
		c.Violate("C14:cross-talk:"+schemas[j.schema].format, "a transform running concurrently with others over shared Schema objects produced a different result than when running alone",
			map[string]interface{}{"goroutines": G, "gomaxprocs": procs, "schema": string(schemas[j.schema].text), "input": core.Trunc(string(j.input), 2000),
				"first_difference_at_step": m.step, "concurrent": m.got, "serial": m.want})
	}
	if c.Idx < 8 {
		c.Sample(map[string]interface{}{"schemas": len(schemas), "jobs": len(jobs), "goroutines": G, "gomaxprocs": procs, "yields": yields, "stamp_windows": log.windows()})
	}
}

// c14Interleaved keeps several transforms alive at once in ONE goroutine and advances them round-robin: no scheduling luck is needed for
// state that two live transforms must not share (buffers, readers, caches keyed too coarsely) to show up as a result that differs
// from the transform's result when it ran alone.
func c14Interleaved(c *core.Ctx, r *core.Rand, njobs int, job func(i int) (omniparser.Schema, []byte, omni.Transcript, string, []byte), ext map[string]string) {
	k := r.Range(4, 12)
	if k > njobs {
		k = njobs
	}
	pick := r.Perm(njobs)[:k]
	type live struct {
		tr     omniparser.Transform
		got    omni.Transcript
		done   bool
		extra  int
		serial omni.Transcript
		format string
		text   []byte
		input  []byte
	}
	// jobs of the same schema next to each other, so that the sliding window below holds transforms of the same format together
	var ls []*live
	for _, ji := range pick {
		_, input, serial, format, text := job(ji)
		ls = append(ls, &live{serial: serial, format: format, text: text, input: input})
	}
	sort.SliceStable(ls, func(i, j int) bool { return string(ls[i].text) < string(ls[j].text) })
	schemaOf := map[string]omniparser.Schema{}
	for _, ji := range pick {
		s, _, _, _, text := job(ji)
		schemaOf[string(text)] = s
	}
	// a window of W transforms is alive at any time; whenever one has ended the next ones are created (right after the ended one gave
	// back whatever it gives back), and all live ones are advanced in turns
	W := r.Range(2, 4)
	low := r.Intn(W) // new transforms are created, up to W alive, whenever no more than `low` are left (0: the whole window is replaced at once)
	next := 0
	var alive []*live
	maxAlive := 0
	for steps := 0; steps < 40000; steps++ {
		for (len(alive) <= low || (len(alive) < W && steps == 0)) && next < len(ls) {
			for len(alive) < W && next < len(ls) {
				l := ls[next]
				next++
				tr, err := schemaOf[string(l.text)].NewTransform("in", bytes.NewReader(l.input), &transformctx.Ctx{ExternalProperties: ext})
				if err != nil {
					l.got = omni.Transcript{{Op: "NewTransform", Class: omni.FATAL, ErrType: omni.ErrType(err), ErrMsg: err.Error()}}
					l.done = true
					continue
				}
				l.tr = tr
				alive = append(alive, l)
			}
		}
		if len(alive) == 0 {
			break
		}
		if len(alive) > maxAlive {
			maxAlive = len(alive)
		}
		for i := 1; i < len(alive); i++ {
			if alive[i].format == alive[0].format {
				c.Inc("interleaved_steps_with_two_live_transforms_of:" + alive[0].format)
				break
			}
		}
		var still []*live
		for _, l := range alive {
			st := omni.ReadStep(l.tr, true)
			l.got = append(l.got, st)
			if st.Class == omni.EOF || st.Class == omni.FATAL {
				if l.extra >= 1 || len(l.got) > 3000 {
					l.done = true
				}
				l.extra++
			}
			if !l.done {
				still = append(still, l)
			}
		}
		alive = still
	}
	c.Max("interleaved_transforms_alive_at_once", int64(maxAlive))
	for _, l := range ls {
		c.Inc("interleaved_transforms")
		c.Inc("evaluations")
		got := maskLines(l.got, l.format)
		if got.String() != l.serial.String() {
			i := firstDiff(got, l.serial)
			c.Violate("C14:interleaved:"+l.format, "a transform advanced in turns with other live transforms (same goroutine) produced a different result than when running alone",
				map[string]interface{}{"transforms_alive": len(ls), "schema": string(l.text), "input": core.Trunc(string(l.input), 2000),
					"first_difference_at_step": i, "interleaved": stepAt(got, i), "alone": stepAt(l.serial, i)})
			return
		}
	}
}

var c14ColdSeq int64

// c14ColdStart loads a schema whose xpath strings no cache in this process has seen yet and lets several goroutines use it for the
// first time at the same moment (released together by a barrier); only then it is run alone for comparison. Lazily filled process-wide
// caches (compiled xpaths, regexps, javascript programs, anything derived from them) are hit cold by all of them at once.
func c14ColdStart(c *core.Ctx, r *core.Rand, ext map[string]string) {
	format := gen.Formats[r.Intn(len(gen.Formats))]
	k := gen.NewKit(r, format)
	tag := fmt.Sprintf("cold-%d-%d-%d", c.Seed, c.Idx, atomic.AddInt64(&c14ColdSeq, 1))
	k.Filter = "n!='0' and id!='" + tag + "'"
	var doc map[string]interface{}
	json.Unmarshal(k.Schema(gen.ModeFilter), &doc)
	fo := doc["transform_declarations"].(map[string]interface{})["FINAL_OUTPUT"].(map[string]interface{})
	obj := fo["object"].(map[string]interface{})
	obj["coldarr"] = map[string]interface{}{"array": []interface{}{map[string]interface{}{"xpath": "*[.!='" + tag + "']"}}}
	obj["coldfield"] = map[string]interface{}{"xpath": "id[.!='" + tag + "a']"}
	obj["coldjs"] = map[string]interface{}{"custom_func": map[string]interface{}{"name": "javascript", "args": []interface{}{
		map[string]interface{}{"const": "v + '" + tag + "'"}, map[string]interface{}{"const": "v"}, map[string]interface{}{"xpath": "id"}}}}
	text, _ := json.Marshal(doc)
	s, err := omni.NewSchema(text)
	if err != nil {
		c.Inconclusive("cold-start schema rejected: " + err.Error())
		return
	}
	var recs []gen.Rec
	for i := 0; i < r.Range(2, 12); i++ {
		rec := k.GenRec(r, i)
		if r.Chance(1, 5) {
			rec.Num = "0"
		}
		recs = append(recs, rec)
	}
	input := k.Render(r, recs, gen.RenderOpts{})
	G := r.Pick2(2, 4, 8)
	start := make(chan struct{})
	outs := make([]omni.Transcript, G)
	var wg sync.WaitGroup
	for g := 0; g < G; g++ {
		wg.Add(1)
		go func(g int) {
			defer wg.Done()
			<-start
			outs[g] = omni.RunAll(s, bytes.NewReader(input), omni.RunOpts{MaxReads: 3000, ExtraReads: 1, Ext: ext})
		}(g)
	}
	close(start)
	wg.Wait()
	alone := maskLines(omni.RunAll(s, bytes.NewReader(input), omni.RunOpts{MaxReads: 3000, ExtraReads: 1, Ext: ext}), format)
	c.Inc("cold_start_arenas")
	for g := 0; g < G; g++ {
		c.Inc("cold_start_transforms")
		c.Inc("evaluations")
		got := maskLines(outs[g], format)
		if got.String() != alone.String() {
			i := firstDiff(got, alone)
			c.Violate("C14:cold-start:"+format, "a transform that was among the first, simultaneous users of a freshly loaded schema produced a different result than the same transform running alone afterwards",
				map[string]interface{}{"goroutines": G, "schema": string(text), "input": core.Trunc(string(input), 2000), "first_difference_at_step": i, "cold": stepAt(got, i), "alone": stepAt(alone, i)})
			return
		}
	}
}
