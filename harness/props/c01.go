package props

import (
	"bytes"
	"encoding/json"
	"errors"
	"fmt"
	"io"
	"reflect"
	"strings"
	"unicode/utf8"

	"github.com/jf-tech/omniparser"
	"github.com/jf-tech/omniparser/customfuncs"
	"github.com/jf-tech/omniparser/errs"
	v21 "github.com/jf-tech/omniparser/extensions/omniv21"
	"github.com/jf-tech/omniparser/extensions/omniv21/fileformat"
	"github.com/jf-tech/omniparser/extensions/omniv21/samples/customfileformats/jsonlog/jsonlogformat"
	"github.com/jf-tech/omniparser/idr"
	"github.com/jf-tech/omniparser/schemahandler"
	"github.com/jf-tech/omniparser/transformctx"

	"verif/harness/core"
	"verif/harness/gen"
	"verif/harness/omni"
)

// C01 — Read/RawRecord result-stream contract.

func init() {
	core.Register(&core.Prop{
		ID:    "C01",
		Level: "exploration",
		Rule: "two monitors. (1) executable model of the Transform wrapper (Fresh | LastOK | LastFail | Terminal) in lock-step with the real Transform over a " +
			"scripted caller-supplied SchemaHandler/Ingester whose steps include what a handler is free to produce: bytes together with an error, continuable " +
			"errors of arbitrary Go types, io.EOF declared continuable, ErrTransformFailed-typed errors declared fatal, non-comparable error values, the " +
			"same error value twice; random programs of Read/RawRecord calls (length <= 40). (2) trace-specification monitor over the seven built-in " +
			"readers plus the jsonlog sample file format on well-formed, failing-record, malformed and empty inputs with random Read/RawRecord programs " +
			"continuing 1-20 calls past the first terminal result: result classes, JSON/UTF-8 validity, stickiness, RawRecord gating, RawRecord describing " +
			"the record just read (copy schema) and its checksum. distinct = digest of the observed call history; non-trivial = history with >=1 failure " +
			"or terminal error followed by further calls.",
		Assumptions: []string{
			"a handler never returns a nil RawRecord together with a nil error (handler contract); everything else a handler may return is scripted",
			"result classes are derived only from public predicates: err==nil, err==io.EOF, errs.IsErrTransformFailed(err)",
		},
		Cases: func(t core.Tier) int {
			if t == core.Thorough {
				return 240000
			}
			return 6000
		},
		Run: runC01,
		Min: func(t core.Tier) map[string]int64 {
			return map[string]int64{"scripted_histories": 2000, "reader_histories": 1500, "calls": 50000, "calls_after_terminal": 5000,
				"rawrecord_calls": 10000, "class:FAIL": 1000, "class:FATAL": 1000, "class:EOF": 1000, "class:OK": 5000}
		},
		Finish: func(a *core.Agg) {
			// every format must have shown a fatal-mid-stream history with >= 2 post-terminal Reads
			for _, f := range append(append([]string{}, gen.Formats...), "jsonlog") {
				if f == "jsonlog" {
					continue // the sample format has no fatal parse errors: every bad line is continuable by its design
				}
				if a.Counters["fatal_midstream_histories:"+f] < 1 {
					a.AddInconclusive("no history with a fatal error mid-stream and >=2 later Reads was observed for format " + f)
				}
			}
		},
	})
}

// ---- monitor 1: scripted ingester ----

type scriptStep struct {
	raw  schemahandler.RawRecord
	b    []byte
	err  error
	cont bool
	desc string
}

type scriptedRaw struct{ id int }

func (r *scriptedRaw) Raw() interface{}  { return r.id }
func (r *scriptedRaw) Checksum() string { return fmt.Sprintf("cs-%d", r.id) }

type nonComparableErr struct {
	msg  string
	tags []string
}

func (e nonComparableErr) Error() string { return e.msg }

type ptrErr struct{ msg string }

func (e *ptrErr) Error() string { return e.msg }

type scriptedIngester struct {
	steps []scriptStep
	pos   int
	cur   *scriptStep
	calls int
}

func (s *scriptedIngester) Read() (schemahandler.RawRecord, []byte, error) {
	s.calls++
	if s.pos >= len(s.steps) {
		s.cur = &scriptStep{err: io.EOF, desc: "script exhausted: EOF"}
		return nil, nil, io.EOF
	}
	s.cur = &s.steps[s.pos]
	s.pos++
	return s.cur.raw, s.cur.b, s.cur.err
}
func (s *scriptedIngester) IsContinuableError(err error) bool { return s.cur != nil && s.cur.cont }
func (s *scriptedIngester) FmtErr(format string, args ...interface{}) error {
	return fmt.Errorf(format, args...)
}

type scriptedHandler struct{ ing *scriptedIngester }

func (h *scriptedHandler) NewIngester(ctx *transformctx.Ctx, input io.Reader) (schemahandler.Ingester, error) {
	return h.ing, nil
}

func sameErr(a, b error) bool {
	if a == nil || b == nil {
		return a == nil && b == nil
	}
	ta, tb := reflect.TypeOf(a), reflect.TypeOf(b)
	if ta != tb {
		return false
	}
	if ta.Comparable() {
		return a == b
	}
	return reflect.DeepEqual(a, b)
}

func c01Scripted(c *core.Ctx) {
	r := c.R
	c.Inc("scripted_histories")
	shared := errors.New("shared error value")
	n := r.Range(0, 14)
	var steps []scriptStep
	for i := 0; i < n; i++ {
		raw := &scriptedRaw{id: i}
		okBytes := []byte(fmt.Sprintf(`{"rec":%d}`, i))
		switch k := r.Intn(16); {
		case k < 7:
			steps = append(steps, scriptStep{raw: raw, b: okBytes, desc: "ok"})
		case k == 7:
			steps = append(steps, scriptStep{raw: raw, b: okBytes, err: errors.New("bytes with continuable error"), cont: true, desc: "bytes+continuable error"})
		case k == 8:
			steps = append(steps, scriptStep{raw: raw, b: okBytes, err: errors.New("bytes with fatal error"), cont: false, desc: "bytes+fatal error"})
		case k == 9:
			steps = append(steps, scriptStep{err: &ptrErr{"custom continuable"}, cont: true, desc: "continuable custom type"})
		case k == 10:
			steps = append(steps, scriptStep{err: io.EOF, cont: true, desc: "io.EOF declared continuable"})
		case k == 11:
			steps = append(steps, scriptStep{err: errs.ErrTransformFailed("typed as transform failure but declared fatal"), cont: false, desc: "ErrTransformFailed declared fatal"})
		case k == 12:
			steps = append(steps, scriptStep{err: nonComparableErr{"non comparable", []string{"a"}}, cont: r.Bool(), desc: "non-comparable error"})
		case k == 13:
			steps = append(steps, scriptStep{err: shared, cont: true, desc: "shared error value (continuable)"})
		case k == 14:
			steps = append(steps, scriptStep{err: io.EOF, cont: false, desc: "EOF"})
		default:
			steps = append(steps, scriptStep{err: io.ErrUnexpectedEOF, cont: false, desc: "fatal"})
		}
	}
	ing := &scriptedIngester{steps: steps}
	ext := omniparser.Extension{CreateSchemaHandler: func(ctx *schemahandler.CreateCtx) (schemahandler.SchemaHandler, error) {
		if ctx.Header.ParserSettings.Version != "verif.scripted" {
			return nil, errs.ErrSchemaNotSupported
		}
		return &scriptedHandler{ing: ing}, nil
	}}
	s, err := omniparser.NewSchema("scripted", strings.NewReader(`{"parser_settings":{"version":"verif.scripted","file_format_type":"none"}}`), ext)
	if err != nil {
		c.Inconclusive("scripted schema rejected: " + err.Error())
		return
	}
	tr, err := s.NewTransform("in", strings.NewReader(""), &transformctx.Ctx{})
	if err != nil {
		c.Inconclusive("NewTransform on scripted handler failed: " + err.Error())
		return
	}
	// model state
	var terminal error
	var lastErr error
	var lastRaw schemahandler.RawRecord
	readYet := false
	mpos := 0
	var hist []string
	fail := func(sig, what string) {
		var sd []string
		for _, st := range steps {
			sd = append(sd, st.desc)
		}
		c.Violate("C01:scripted:"+sig, what, map[string]interface{}{"script": sd, "history": hist})
	}
	ncalls := r.Range(1, 40)
	for i := 0; i < ncalls; i++ {
		c.Inc("calls")
		c.Inc("evaluations")
		if r.Chance(2, 5) {
			c.Inc("rawrecord_calls")
			rr, rerr := tr.RawRecord()
			hist = append(hist, fmt.Sprintf("RawRecord -> (%v, %v)", rr != nil, rerr))
			switch {
			case !readYet:
				if rerr == nil || rr != nil {
					fail("rawrecord-before-read", "RawRecord before any Read must return an error")
					return
				}
			case lastErr != nil:
				if rr != nil || !sameErr(rerr, lastErr) {
					fail("rawrecord-after-failed-read", fmt.Sprintf("RawRecord after a failed Read must return that Read's error (%v), got (%v, %v)", lastErr, rr, rerr))
					return
				}
			default:
				if rerr != nil || rr != lastRaw {
					fail("rawrecord-after-ok-read", fmt.Sprintf("RawRecord after a successful Read must return that record, got (%v, %v)", rr, rerr))
					return
				}
			}
			continue
		}
		b, rerr := tr.Read()
		readYet = true
		cls := omni.Classify(rerr)
		c.Inc("class:" + cls)
		hist = append(hist, fmt.Sprintf("Read -> (%q, %v [%T])", b, rerr, rerr))
		if terminal != nil {
			c.Inc("calls_after_terminal")
			if b != nil || !sameErr(rerr, terminal) {
				fail("not-sticky", fmt.Sprintf("after terminal error %v a later Read returned (%q, %v)", terminal, b, rerr))
				return
			}
			lastErr = terminal
			continue
		}
		// expected from the model
		var st scriptStep
		if mpos < len(steps) {
			st = steps[mpos]
			mpos++
		} else {
			st = scriptStep{err: io.EOF}
		}
		switch {
		case st.err == nil:
			if rerr != nil || string(b) != string(st.b) {
				fail("ok-step", fmt.Sprintf("handler returned a record, Read returned (%q, %v)", b, rerr))
				return
			}
			lastErr, lastRaw = nil, st.raw
		case st.cont:
			if b != nil {
				fail("bytes-with-error", fmt.Sprintf("Read returned non-nil bytes %q together with error %v", b, rerr))
				return
			}
			if !errs.IsErrTransformFailed(rerr) || rerr.Error() != st.err.Error() {
				fail("continuable-not-wrapped", fmt.Sprintf("continuable handler error %v must surface as ErrTransformFailed with the same text, got %v [%T]", st.err, rerr, rerr))
				return
			}
			lastErr, lastRaw = rerr, nil
		default:
			if b != nil {
				fail("bytes-with-error", fmt.Sprintf("Read returned non-nil bytes %q together with error %v", b, rerr))
				return
			}
			if !sameErr(rerr, st.err) {
				fail("fatal-not-raw", fmt.Sprintf("non-continuable handler error %v [%T] must be returned unchanged, got %v [%T]", st.err, st.err, rerr, rerr))
				return
			}
			lastErr, lastRaw = rerr, nil
			if cls == omni.EOF || cls == omni.FATAL {
				terminal = rerr
			}
		}
	}
	c.Distinct(strings.Join(hist, "\n"))
	if c.Idx < 6 {
		c.Sample(map[string]interface{}{"monitor": "scripted", "history": hist})
	}
}

// ---- monitor 2: trace specification over the real readers ----

func jsonlogExt() omniparser.Extension {
	return omniparser.Extension{
		CreateSchemaHandler: v21.CreateSchemaHandler,
		CreateSchemaHandlerParams: &v21.CreateParams{
			CustomFileFormats: []fileformat.FileFormat{jsonlogformat.NewJSONLogFileFormat("schema")},
		},
		CustomFuncs: omni.Ext.CustomFuncs,
	}
}

func c01Readers(c *core.Ctx) {
	r := c.R
	formats := append(append([]string{}, gen.Formats...), "jsonlog")
	format := formats[(c.Idx/2)%len(formats)]
	var s omniparser.Schema
	var input []byte
	var schema []byte
	mode := r.Pick(gen.ModeCopy, gen.ModeCopy, gen.ModeFailing, gen.ModePass, gen.ModeFilter, gen.ModeRich, gen.ModeFloat)
	var err error
	if format == "jsonlog" {
		schema = []byte(`{"parser_settings":{"version":"omni.2.1","file_format_type":"jsonlog"},"transform_declarations":{"FINAL_OUTPUT":{"xpath":".[sev!='skip']","object":{"id":{"xpath":"id"},"n":{"xpath":"n","type":"int"}}}}}`)
		if mode == gen.ModeCopy {
			schema = []byte(`{"parser_settings":{"version":"omni.2.1","file_format_type":"jsonlog"},"transform_declarations":{"FINAL_OUTPUT":{"xpath":".","custom_func":{"name":"copy"},"keep_empty_or_null":true}}}`)
		}
		var sb strings.Builder
		for i := 0; i < r.Range(0, 12); i++ {
			switch r.Intn(6) {
			case 0:
				sb.WriteString(`{"id":"r` + fmt.Sprint(i) + `","n":"x","sev":"e"}` + "\n")
			case 1:
				sb.WriteString(`{"id": broken json` + "\n")
			case 2:
				sb.WriteString("\n")
			case 3:
				sb.WriteString(`{"id":"r` + fmt.Sprint(i) + `","n":"1","sev":"skip"}` + "\n")
			default:
				sb.WriteString(`{"id":"r` + fmt.Sprint(i) + `","n":"` + fmt.Sprint(r.Intn(100)) + `","sev":"e"}` + "\n")
			}
		}
		input = []byte(sb.String())
		s, err = omniparser.NewSchema("schema", bytes.NewReader(schema), jsonlogExt())
	} else {
		cs := genFormatCase(c, r, format, false)
		k := cs.kit
		if mode == gen.ModeFilter && r.Chance(1, 2) {
			k.Filter = r.Pick("n >= 1", "not(n < 1)", "n > 0 or n = 'x'") // numeric comparison over cells that are not always numbers
		}
		schema = k.Schema(mode)
		input = cs.input
		switch r.Intn(8) {
		case 0:
			input = nil // empty
			c.Inc("empty_inputs")
		case 1, 2, 3:
			var how string
			input, how = mutateInput(r, input)
			c.Inc("malformed:" + how)
		}
		s, err = omni.NewSchema(schema)
	}
	if err != nil {
		c.Inconclusive("schema rejected: " + err.Error())
		return
	}
	tr, err := s.NewTransform("in", bytes.NewReader(input), &transformctx.Ctx{})
	if err != nil {
		c.Inc("newtransform_errors")
		return
	}
	c.Inc("reader_histories")
	c.Inc("reader_histories:" + format)
	var hist []string
	detail := func() map[string]interface{} {
		return map[string]interface{}{"format": format, "schema": string(schema), "input": core.Trunc(string(input), 3000), "history": hist}
	}
	var lastErr error
	var lastBytes []byte
	var terminal error
	readYet := false
	afterTerminal := 0
	extra := r.Range(1, 20)
	sawFail := false
	reads := 0
	for i := 0; reads <= len(input)+2+extra; i++ {
		c.Inc("calls")
		c.Inc("evaluations")
		if r.Chance(2, 5) {
			c.Inc("rawrecord_calls")
			rr, rerr := tr.RawRecord()
			rr2, rerr2 := tr.RawRecord() // idempotent between Reads
			hist = append(hist, fmt.Sprintf("RawRecord -> (%v, %v)", rr != nil, rerr))
			if (rr == nil) != (rr2 == nil) || (rerr == nil) != (rerr2 == nil) || (rerr != nil && (rerr.Error() != rerr2.Error() || reflect.TypeOf(rerr) != reflect.TypeOf(rerr2))) || (rr != nil && rr != rr2) {
				c.Violate("C01:"+format+":rawrecord-not-idempotent", "two RawRecord calls without a Read in between disagree", detail())
				return
			}
			switch {
			case !readYet:
				if rerr == nil || rr != nil {
					c.Violate("C01:"+format+":rawrecord-before-read", "RawRecord before any Read must return an error", detail())
					return
				}
			case lastErr != nil:
				if rr != nil || !sameErr(rerr, lastErr) {
					c.Violate("C01:"+format+":rawrecord-after-failed-read", fmt.Sprintf("RawRecord after a failed Read must return that Read's error, got (%v, %v)", rr, rerr), detail())
					return
				}
			default:
				if rerr != nil || rr == nil {
					c.Violate("C01:"+format+":rawrecord-after-ok-read", fmt.Sprintf("RawRecord after a successful Read must succeed, got error %v", rerr), detail())
					return
				}
				node, ok := rr.Raw().(*idr.Node)
				if !ok || node == nil {
					c.Violate("C01:"+format+":rawrecord-raw-type", "RawRecord().Raw() is not a *idr.Node", detail())
					return
				}
				want, _ := customfuncs.UUIDv3(nil, idr.JSONify2(node))
				if rr.Checksum() != want {
					c.Violate("C01:"+format+":rawrecord-checksum", "Checksum() is not the UUIDv3 of the record's JSON rendering", detail())
					return
				}
				if mode == gen.ModeCopy {
					c.Inc("rawrecord_describes_record_checks")
					var got, exp interface{}
					eb, _ := json.Marshal(idr.J2NodeToInterface(node, true))
					json.Unmarshal(eb, &exp)
					json.Unmarshal(lastBytes, &got)
					if !reflect.DeepEqual(got, exp) {
						d := detail()
						d["read_bytes"] = string(lastBytes)
						d["rawrecord_renders_as"] = string(eb)
						c.Violate("C01:"+format+":rawrecord-other-record", "RawRecord does not describe the record the last Read returned", d)
						return
					}
				}
			}
			continue
		}
		b, rerr := tr.Read()
		reads++
		readYet = true
		cls := omni.Classify(rerr)
		c.Inc("class:" + cls)
		hist = append(hist, fmt.Sprintf("Read -> %s (%d bytes, %v)", cls, len(b), rerr))
		if len(hist) > 60 {
			hist = hist[len(hist)-60:]
		}
		if rerr != nil && b != nil {
			c.Violate("C01:"+format+":bytes-with-error", "Read returned non-nil bytes together with an error", detail())
			return
		}
		if rerr == nil && (b == nil || !json.Valid(b) || !utf8.Valid(b)) {
			d := detail()
			d["bytes"] = string(b)
			c.Violate("C01:"+format+":invalid-json", "Read returned bytes that are not valid UTF-8 JSON", d)
			return
		}
		if terminal != nil {
			c.Inc("calls_after_terminal")
			afterTerminal++
			if !sameErr(rerr, terminal) {
				c.Violate("C01:"+format+":not-sticky", fmt.Sprintf("after terminal result %v a later Read returned %v", terminal, rerr), detail())
				return
			}
			if afterTerminal >= extra {
				break
			}
			continue
		}
		lastErr, lastBytes = rerr, b
		if cls == omni.FAIL {
			sawFail = true
		}
		if cls == omni.EOF || cls == omni.FATAL {
			terminal = rerr
			if cls == omni.FATAL && i > 0 && extra >= 2 {
				c.Inc("fatal_midstream_histories:" + format)
			}
		}
	}
	if terminal == nil {
		c.Violate("C01:"+format+":no-terminal", fmt.Sprintf("%d Reads without a terminal result on a finite input of %d bytes", reads, len(input)), detail())
		return
	}
	if sawFail || afterTerminal > 0 {
		c.Distinct(format, strings.Join(hist, "\n"))
	}
	if c.Idx < 20 {
		c.Sample(map[string]interface{}{"monitor": "readers", "format": format, "history": hist})
	}
}

func runC01(c *core.Ctx) {
	if c.Idx%2 == 0 {
		c01Scripted(c)
	} else {
		c01Readers(c)
	}
}
