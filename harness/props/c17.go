package props

import (
	"fmt"
	"io"
	"sort"
	"strings"

	"github.com/jf-tech/omniparser/idr"
	"github.com/jf-tech/omniparser/transformctx"

	"verif/harness/core"
	"verif/harness/gen"
	"verif/harness/mon"
	"verif/harness/omni"
)

// C17 — memory retained while streaming does not grow with records delivered.

func init() {
	core.Register(&core.Prop{
		ID:    "C17",
		Level: "exploration",
		Rule: "each case = one streamed input of N records (quick 5000, thorough 200000) of one format under a fixed set of ancestors, generated lazily " +
			"(io.Reader over a record generator, never materialised); variants: targets that pass / fail the FINAL_OUTPUT filter interleaved, per-record " +
			"transform failures, runs of consecutive non-targets, targets that are records with child records or groups (csv2 / fixedlength2 / edi), respelled target filters (other quote character, literals containing a quote or bracket, two predicates, xml attribute tests), insignificant separators between records (whitespace/newlines in XML and JSON, blank lines in csv/fixed-length, CR/LF " +
			"between EDI segments with ignore_crlf). Monitor: number of nodes reachable from the k-th delivered record (Parent links to the root, whole " +
			"tree) sampled at k=1..20 and ~200 evenly spaced k; must satisfy max over the second half <= max over the first quarter. Growth is attributed " +
			"by node class (type, depth relative to the record, sibling-of-record). distinct = (format, variant) streams; non-trivial = >=1000 records delivered.",
		Assumptions: []string{
			"retention is measured as reachable idr nodes (the statement's own metric), not heap bytes; heap-in-use is reported but never decides",
			"records of one stream have the same shape, so a correct reader shows an exactly constant size",
		},
		Cases: func(t core.Tier) int { return 99 },
		Run:   runC17,
		Batch: func(t core.Tier) int { return 2 },
		Min: func(t core.Tier) map[string]int64 {
			return map[string]int64{"records_delivered": 100000, "size_samples": 3000, "streams_with_separators": 10, "streams_with_filtered_targets": 10}
		},
	})
}

// recStream lazily renders header + N records + trailer.
type recStream struct {
	next func(i int) []byte // i in [0,N): record i; i==-1 header; i==N trailer
	n    int
	i    int
	buf  []byte
}

func (s *recStream) Read(p []byte) (int, error) {
	for len(s.buf) == 0 {
		if s.i > s.n {
			return 0, io.EOF
		}
		s.buf = s.next(s.i)
		s.i++
	}
	n := copy(p, s.buf)
	s.buf = s.buf[n:]
	return n, nil
}

// streamOf builds a lazy input from the kit's Head / OneRec / Tail parts.
func streamOf(k *gen.Kit, r *core.Rand, n int, o gen.RenderOpts, mk func(i int) gen.Rec) *recStream {
	return &recStream{n: n, i: -1, next: func(i int) []byte {
		switch {
		case i == -1:
			return k.Head(r, o)
		case i == n:
			return k.Tail(r, o)
		}
		return k.OneRec(r, mk(i), o, i == 0, i == n-1)
	}}
}

type nodeClass struct {
	typ   string
	depth int // depth of the node relative to the record's parent level: 0 = sibling level of the record
	rel   string
}

func classify(root, rec *idr.Node) map[string]int {
	// depth of record
	recDepth := 0
	for p := rec; p.Parent != nil; p = p.Parent {
		recDepth++
	}
	inRec := map[*idr.Node]bool{}
	var mark func(n *idr.Node)
	mark = func(n *idr.Node) {
		inRec[n] = true
		for c := n.FirstChild; c != nil; c = c.NextSibling {
			mark(c)
		}
	}
	mark(rec)
	out := map[string]int{}
	var walk func(n *idr.Node, d int)
	walk = func(n *idr.Node, d int) {
		rel := "outside-record"
		switch {
		case inRec[n]:
			rel = "inside-record"
		case n.Parent == rec.Parent && n != rec:
			rel = "sibling-of-record"
		case d < recDepth:
			rel = "ancestor-level"
		}
		out[fmt.Sprintf("%s/%s/depth%+d", n.Type, rel, d-recDepth)]++
		for c := n.FirstChild; c != nil; c = c.NextSibling {
			walk(c, d+1)
		}
	}
	walk(root, 0)
	return out
}

// c17Hier: csv2 / fixedlength2 / edi streams whose target is a record with child records, or a group, filtered by FINAL_OUTPUT's xpath
// (non-targets alternate with targets, or come in runs of three).
func c17Hier(c *core.Ctx, which int) {
	format := []string{"csv2", "fixedlength2", "edi"}[which%3]
	group := (which/3)%2 == 1
	runs := which/6 == 1
	N := 5000
	if c.Tier == core.Thorough {
		N = 200000
	}
	var fd string
	switch format {
	case "csv2":
		h := `"header":"^H,","columns":[{"name":"id","index":2},{"name":"n","index":3}]`
		l := `{"name":"L","header":"^L,","min":0,"max":-1,"columns":[{"name":"v","index":2}]}`
		if group {
			fd = `{"delimiter":",","records":[{"name":"G","type":"record_group","is_target":true,"min":0,"max":-1,"child_records":[{"name":"H","min":1,"max":1,` + h + `},` + l + `]}]}`
		} else {
			fd = `{"delimiter":",","records":[{"name":"H","is_target":true,"min":0,"max":-1,` + h + `,"child_records":[` + l + `]}]}`
		}
	case "fixedlength2":
		h := `"header":"^H","columns":[{"name":"id","start_pos":2,"length":6},{"name":"n","start_pos":8,"length":1}]`
		l := `{"name":"L","header":"^L","min":0,"max":-1,"columns":[{"name":"v","start_pos":2,"length":4}]}`
		if group {
			fd = `{"envelopes":[{"name":"G","type":"envelope_group","is_target":true,"min":0,"max":-1,"child_envelopes":[{"name":"H","min":1,"max":1,` + h + `},` + l + `]}]}`
		} else {
			fd = `{"envelopes":[{"name":"H","is_target":true,"min":0,"max":-1,` + h + `,"child_envelopes":[` + l + `]}]}`
		}
	default:
		h := `"elements":[{"name":"id","index":1},{"name":"n","index":2}]`
		l := `{"name":"L","min":0,"max":-1,"elements":[{"name":"v","index":1}]}`
		if group {
			fd = `{"segment_delimiter":"~","element_delimiter":"*","segment_declarations":[{"name":"G","type":"segment_group","is_target":true,"min":0,"max":-1,"child_segments":[{"name":"H","min":1,"max":1,` + h + `},` + l + `]}]}`
		} else {
			fd = `{"segment_delimiter":"~","element_delimiter":"*","segment_declarations":[{"name":"H","is_target":true,"min":0,"max":-1,` + h + `,"child_segments":[` + l + `]}]}`
		}
	}
	filter, id := ".[n!='0']", "id"
	if group {
		filter, id = ".[H/n!='0']", "H/id"
	}
	schema := `{"parser_settings":{"version":"omni.2.1","file_format_type":"` + format + `"},"file_declaration":` + fd +
		`,"transform_declarations":{"FINAL_OUTPUT":{"xpath":"` + filter + `","object":{"id":{"xpath":"` + id + `"},"vs":{"array":[{"xpath":"` + map[bool]string{true: "L/v", false: "L/v"}[group] + `"}]}}}}}`
	st := &recStream{n: N, i: -1, next: func(i int) []byte {
		if i < 0 || i >= N {
			return nil
		}
		n := "5"
		if (!runs && i%3 == 1) || (runs && (i%7 == 1 || i%7 == 2 || i%7 == 3 || i%7 == 5)) {
			n = "0"
		}
		var sb strings.Builder
		switch format {
		case "csv2":
			fmt.Fprintf(&sb, "H,r%d,%s\n", i%7, n)
			for j := 0; j < i%3; j++ {
				fmt.Fprintf(&sb, "L,v%d\n", j)
			}
		case "fixedlength2":
			fmt.Fprintf(&sb, "H%-6s%s\n", fmt.Sprintf("r%d", i%7), n)
			for j := 0; j < i%3; j++ {
				fmt.Fprintf(&sb, "Lv%d  \n", j)
			}
		default:
			fmt.Fprintf(&sb, "H*r%d*%s~", i%7, n)
			for j := 0; j < i%3; j++ {
				fmt.Fprintf(&sb, "L*v%d~", j)
			}
		}
		return []byte(sb.String())
	}}
	mode := "hier-record-with-children"
	if group {
		mode = "hier-group"
	}
	if runs {
		mode += "+reject-runs"
	}
	c.Inc("streams_with_hierarchical_targets")
	c17Monitor(c, format, mode, filter, false, []byte(schema), st, N)
}

// c17Separators: old fixed-length streams whose columns pick their line by pattern, with envelopes in between that consist of lines no
// column pattern matches (rulers, comments): those come out as records without fields, and must not pile up either.
func c17Separators(c *core.Ctx, hf bool) {
	N := 5000
	if c.Tier == core.Thorough {
		N = 200000
	}
	env := `{"columns":[{"name":"id","start_pos":2,"length":6,"line_pattern":"^D"},{"name":"n","start_pos":8,"length":3,"line_pattern":"^D"}]}`
	if hf {
		env = `{"name":"e","by_header_footer":{"header":"^B","footer":"^E"},"columns":[{"name":"id","start_pos":2,"length":6,"line_pattern":"^D"},{"name":"n","start_pos":8,"length":3,"line_pattern":"^D"}]}`
	}
	schema := `{"parser_settings":{"version":"omni.2.1","file_format_type":"fixed-length"},"file_declaration":{"envelopes":[` + env +
		`]},"transform_declarations":{"FINAL_OUTPUT":{"object":{"id":{"xpath":"id"},"n":{"xpath":"n"}}}}}`
	st := &recStream{n: N, i: -1, next: func(i int) []byte {
		if i < 0 || i >= N {
			return nil
		}
		data := i%2 == 0
		var sb strings.Builder
		switch {
		case !hf && data:
			fmt.Fprintf(&sb, "D%-6s%03d\n", fmt.Sprintf("r%d", i%7), i%5)
		case !hf:
			sb.WriteString("---------- ruler ----------\n")
		case data:
			fmt.Fprintf(&sb, "B\nD%-6s%03d\nE\n", fmt.Sprintf("r%d", i%7), i%5)
		default:
			sb.WriteString("B\n# nothing here\nE\n")
		}
		return []byte(sb.String())
	}}
	mode := "separator-envelopes"
	if hf {
		mode += "+header-footer"
	}
	c.Inc("streams_with_separator_envelopes")
	c17Monitor(c, "fixed-length", mode, "", false, []byte(schema), st, N)
}

// c17JSONScalars: the targets are plain-valued properties of one JSON object, a part of them rejected by the filter.
func c17JSONScalars(c *core.Ctx) {
	N := 5000
	if c.Tier == core.Thorough {
		N = 200000
	}
	schema := `{"parser_settings":{"version":"omni.2.1","file_format_type":"json"},"transform_declarations":{"FINAL_OUTPUT":{"xpath":"/readings/*[.!='0']","object":{"v":{"xpath":"."}}}}}`
	st := &recStream{n: N, i: -1, next: func(i int) []byte {
		switch {
		case i < 0:
			return []byte(`{"unit":"c","readings":{`)
		case i >= N:
			return []byte(`}}`)
		}
		v := 100 + i%5
		if i%3 == 1 {
			v = 0
		}
		sep := ","
		if i == 0 {
			sep = ""
		}
		return []byte(fmt.Sprintf(`%s"t%d":"%d"`, sep, i, v))
	}}
	c.Inc("streams_with_scalar_targets")
	c17Monitor(c, "json", "scalar-properties", ".!='0'", false, []byte(schema), st, N)
}

func runC17(c *core.Ctx) {
	r := c.R
	if c.Idx == 98 {
		c17JSONScalars(c)
		return
	}
	if c.Idx >= 96 {
		c17Separators(c, c.Idx == 97)
		return
	}
	if c.Idx >= 84 {
		c17Hier(c, c.Idx-84)
		return
	}
	format := gen.Formats[c.Idx%len(gen.Formats)]
	variant := c.Idx / len(gen.Formats) // 0..11
	seps := variant&1 == 1
	numericFilter := false
	mode := []string{gen.ModePass, gen.ModeFilter, gen.ModeFailing, gen.ModeRich}[(variant>>1)%4]
	k := gen.NewKit(r, format)
	if variant >= 8 {
		// other spellings of the same target filter (same records pass): the other quote character, a literal that contains a quote or
		// a bracket, two predicates, and (xml) the attribute instead of the element
		mode = gen.ModeFilter
		fs := []string{`n!="0"`, `n!='0' and id!="it's"`, `n!='0'][id!=']'`, `n!="0" and id!='["'`}
		if format == "xml" {
			fs = []string{`@num!="0"`, `@num!='0' and @num!="it's"`, `@num!='0'][@num!=']'`, `@num!="0" and id!='["'`}
		}
		k.Filter = fs[variant-8]
		if variant == 9 && seps && format != "fixed-length" && format != "fixedlength2" {
			// a numeric comparison; the non-targets carry "x" there, on which the xpath engine fails rather than answers false
			k.Filter, numericFilter = "n >= 1", true
		}
		c.Inc("streams_with_respelled_filters")
	}
	if k.IgnoreCRLF || format != "edi" {
		// keep drawn options
	} else if seps {
		k.IgnoreCRLF = k.SegDelim != "\n"
	}
	N := 5000
	if c.Tier == core.Thorough {
		N = 200000
	}
	rejectRuns := variant >= 8 || seps
	o := gen.RenderOpts{BlankLines: seps, CRLF: r.Chance(1, 4)}
	mk := func(i int) gen.Rec {
		rec := gen.Rec{ID: fmt.Sprintf("r%d", i%7), Num: fmt.Sprint(100 + i%5)} // periodic content
		for j := 0; j < k.NF; j++ {
			rec.F = append(rec.F, fmt.Sprintf("v%d", (i+j)%3))
		}
		if mode == gen.ModeFilter && (i%3 == 1 && !rejectRuns || rejectRuns && (i%7 == 1 || i%7 == 2 || i%7 == 3 || i%7 == 5)) {
			rec.Num = "0" // not a target; with rejectRuns, runs of three and of one consecutive non-targets
			if numericFilter {
				rec.Num = "x"
			}
		}
		if mode == gen.ModeFailing && i%4 == 2 {
			rec.Num = "x"
		}
		return rec
	}
	// separators must be deterministic per stream: BlankLines draws from r inside Render; use a forked rand per record
	st := streamOf(k, r.Fork(), N, o, mk)
	if st == nil {
		c.Inconclusive("could not derive a lazy stream for format " + format)
		return
	}
	c17Monitor(c, format, mode, k.Filter, seps, k.Schema(mode), st, N)
}

// c17Monitor reads the stream to its end and watches the size of the tree reachable from each delivered record.
func c17Monitor(c *core.Ctx, format, mode, filter string, seps bool, schema []byte, st io.Reader, N int) {
	s, err := omni.NewSchema(schema)
	if err != nil {
		c.Inconclusive("kit schema rejected: " + err.Error())
		return
	}
	tr, err := s.NewTransform("in", st, &transformctx.Ctx{})
	if err != nil {
		c.Inconclusive("NewTransform failed: " + err.Error())
		return
	}
	sampleAt := map[int]bool{}
	for i := 1; i <= 20; i++ {
		sampleAt[i] = true
	}
	for i := 1; i <= 200; i++ {
		sampleAt[i*N/200] = true
	}
	type samp struct{ k, size int }
	var samples []samp
	var early, late map[string]int
	delivered, fails := 0, 0
	var termClass, termMsg string
	aborted := false
	for reads := 0; reads < N+10; reads++ {
		_, err := tr.Read()
		cls := omni.Classify(err)
		if cls == omni.FAIL {
			fails++
			continue
		}
		if cls != omni.OK {
			termClass, termMsg = cls, err.Error()
			break
		}
		delivered++
		if !sampleAt[delivered] {
			continue
		}
		rr, rerr := tr.RawRecord()
		if rerr != nil {
			continue
		}
		n := rr.Raw().(*idr.Node)
		root := mon.RootOf(n)
		size := 0
		var count func(x *idr.Node)
		count = func(x *idr.Node) {
			size++
			for ch := x.FirstChild; ch != nil; ch = ch.NextSibling {
				count(ch)
			}
		}
		count(root)
		samples = append(samples, samp{delivered, size})
		c.Inc("size_samples")
		if delivered <= 20 || early == nil {
			early = classify(root, n) // the baseline for attributing growth: the tree as it was within the first 20 records
		}
		late = classify(root, n)
		if len(samples) > 30 && size > 50*samples[0].size+2000 {
			aborted = true // growth is evident; do not spend quadratic time
			break
		}
	}
	c.Count("records_delivered", int64(delivered))
	c.Count("records_failed", int64(fails))
	c.Inc("streams")
	c.Inc("streams:" + format)
	if seps {
		c.Inc("streams_with_separators")
	}
	if mode == gen.ModeFilter || strings.HasPrefix(mode, "hier") {
		c.Inc("streams_with_filtered_targets")
	}
	detail := map[string]interface{}{"format": format, "schema": string(schema), "mode": mode, "separators": seps, "records_planned": N,
		"records_delivered": delivered, "terminal": termClass + " " + termMsg}
	if !aborted && (termClass != omni.EOF || delivered < N/3) {
		c.Inconclusive(fmt.Sprintf("stream for %s/%s ended early: delivered %d of %d, terminal %s %s", format, mode, delivered, N, termClass, core.Trunc(termMsg, 200)))
		return
	}
	if delivered >= 1000 {
		c.Distinct(format, mode, fmt.Sprint(seps), filter)
	}
	var firstQ, secondH int
	for _, sp := range samples {
		if sp.k <= N/4 && sp.size > firstQ {
			firstQ = sp.size
		}
		if sp.k > N/2 && sp.size > secondH {
			secondH = sp.size
		}
	}
	if aborted {
		secondH = samples[len(samples)-1].size
	}
	var show []string
	for i, sp := range samples {
		if i < 3 || i%40 == 0 || i == len(samples)-1 {
			show = append(show, fmt.Sprintf("k=%d:%d", sp.k, sp.size))
		}
	}
	detail["size_samples"] = show
	c.Max("tree_size:"+format, int64(secondH))
	if secondH > firstQ || aborted {
		// attribute
		var surplus []string
		for cls, n := range late {
			if n > early[cls] {
				surplus = append(surplus, cls)
			}
		}
		sort.Strings(surplus)
		detail["growing_node_classes"] = surplus
		cls := "unattributed"
		if len(surplus) > 0 {
			cls = strings.Join(surplus, ",")
		}
		c.Violate("C17:"+format+":growth:"+cls, fmt.Sprintf("tree reachable from the k-th record grows with k (%s): max size in first quarter %d, later %d", format, firstQ, secondH), detail)
	}
	if c.Idx < 14 {
		c.Sample(map[string]interface{}{"format": format, "mode": mode, "separators": seps, "records": delivered, "sizes": show})
	}
}
