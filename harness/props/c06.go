package props

import (
	"bytes"
	"encoding/json"
	"fmt"
	"strings"

	"github.com/jf-tech/omniparser/idr"
	"github.com/jf-tech/omniparser/transformctx"

	"verif/harness/core"
	"verif/harness/gen"
	"verif/harness/mon"
	"verif/harness/omni"
)

// C06 — delimited and fixed-length fields carry exactly the input text.

func init() {
	core.Register(&core.Prop{
		ID:    "C06",
		Level: "exploration",
		Rule: "each case = one logical table (1-40 records) rendered by the harness's own encoders and read back through csv / csv2 / fixed-length / " +
			"fixedlength2. csv/csv2: RFC-4180 quoting with every single-rune delimiter class, cells biased to delimiter, quotes, CR/LF, TAB, blanks, multi-byte " +
			"runes, empty; rows shorter/longer than declared; column index gaps/repeats; LF or CRLF terminators, missing final terminator, blank lines; old-csv " +
			"header rows (matching, mismatching, short); csv2 multi-line records (rows / header-footer) with line_index / line_pattern. fixed-length(2): cells " +
			"at rune positions with gaps, overlaps and positions past the end of the line, multi-line records, lines of 4090-4100 and 65530-65540 bytes, " +
			"records straddling a buffer refill. Compared on the raw record tree (exact text) and through a no_trim pass-through schema. " +
			"Also: empty lines between the rows of one multi-row record, inputs of 100-400 records, empty lines and quoted multi-line rows in the regions the old csv reader skips (before the header, between header and data). " +
			"distinct = digest(format, input); non-trivial = a cell contains a delimiter, quote, line break or multi-byte rune, or a column lies beyond its row/line.",
		Assumptions: []string{
			"decoder-level normalisations inherited from the Go decoders the docs point to: inside a quoted csv field CRLF becomes LF; one CR immediately before a line's LF is not part of a fixed-length line",
			"invalid UTF-8 lines and multi-rune delimiters are outside the stated quantifier",
		},
		Cases: func(t core.Tier) int {
			if t == core.Thorough {
				return 200000
			}
			return 2400
		},
		Run: runC06,
		Min: func(t core.Tier) map[string]int64 {
			return map[string]int64{"cells_compared": 50000, "records_compared": 10000, "cell:contains-delimiter": 300, "cell:contains-quote": 300, "cell:contains-newline": 300,
				"cell:multibyte": 1000, "cell:empty": 1000, "cell:beyond-row": 300, "long_line_inputs": 40, "header_mismatch_inputs": 40, "multiline_records": 500}
		},
	})
}

var c06Runes = []rune("abcdefghijABCXYZ0123456789    \t\t,;|\"\"''§éß中€😀-_/.:*~")

func c06Cell(r *core.Rand, maxLen int, allowNL bool) string {
	if r.Chance(1, 8) {
		return ""
	}
	n := r.Range(1, maxLen)
	var sb strings.Builder
	for i := 0; i < n; i++ {
		c := c06Runes[r.Intn(len(c06Runes))]
		if allowNL && r.Chance(1, 25) {
			sb.WriteString([]string{"\n", "\r\n", "\r"}[r.Intn(3)])
			continue
		}
		sb.WriteRune(c)
	}
	return sb.String()
}

func c06ObserveCell(c *core.Ctx, s, delim string) bool {
	nt := false
	if s == "" {
		c.Inc("cell:empty")
	}
	if delim != "" && strings.Contains(s, delim) {
		c.Inc("cell:contains-delimiter")
		nt = true
	}
	if strings.Contains(s, `"`) {
		c.Inc("cell:contains-quote")
		nt = true
	}
	if strings.ContainsAny(s, "\r\n") {
		c.Inc("cell:contains-newline")
		nt = true
	}
	for _, x := range s {
		if x > 0x7f {
			c.Inc("cell:multibyte")
			nt = true
			break
		}
	}
	if len(s) > 0 && (s[0] == ' ' || s[len(s)-1] == ' ') {
		c.Inc("cell:leading-trailing-blank")
	}
	return nt
}

// childTexts returns name -> text of the element children of a record node (first occurrence; count for duplicates).
func childTexts(n *idr.Node) (map[string]string, map[string]int) {
	out := map[string]string{}
	cnt := map[string]int{}
	for ch := n.FirstChild; ch != nil; ch = ch.NextSibling {
		if ch.Type == idr.ElementNode {
			if _, dup := out[ch.Data]; !dup {
				out[ch.Data] = ch.InnerText()
			}
			cnt[ch.Data]++
		}
	}
	return out, cnt
}

type c06Expect struct {
	cols map[string]*string // nil pointer: column node must be absent
}

func runC06(c *core.Ctx) {
	switch c.Idx % 4 {
	case 0:
		c06CSV(c, false)
	case 1:
		c06CSV(c, true)
	case 2:
		c06Fixed(c, false)
	default:
		c06Fixed(c, true)
	}
}

// c06Drive runs the transform and compares every delivered record with the expectations.
func c06Drive(c *core.Ctx, format string, schema []byte, input []byte, exp []c06Expect, wantTerminal string, extra map[string]interface{}, nontrivial bool) {
	s, err := omni.NewSchema(schema)
	if err != nil {
		c.Inc("schema_rejected")
		c.Inconclusive("C06 generator produced a schema that is rejected: " + err.Error())
		return
	}
	var rd interface{ Read([]byte) (int, error) } = bytes.NewReader(input)
	if c.R.Chance(1, 4) {
		rd = mon.NewSchedule(c.R.Pick("small", "primes", "large"), input, c.R.Fork(), nil)
	}
	tr, err := s.NewTransform("in", rd, &transformctx.Ctx{})
	detail := func(m map[string]interface{}) map[string]interface{} {
		d := map[string]interface{}{"format": format, "schema": string(schema), "input": core.Trunc(string(input), 3000), "input_len": len(input)}
		for k, v := range extra {
			d[k] = v
		}
		for k, v := range m {
			d[k] = v
		}
		return d
	}
	if err != nil {
		c.Violate("C06:"+format+":newtransform-failed", "NewTransform failed on a well-formed input: "+err.Error(), detail(nil))
		return
	}
	c.Inc("inputs")
	c.Inc("inputs:" + format)
	c.Inc("evaluations")
	if nontrivial {
		c.Distinct(format, string(input))
	}
	i := 0
	for ; i < len(exp)+3; i++ {
		b, err := tr.Read()
		cls := omni.Classify(err)
		if cls != omni.OK {
			if i != len(exp) || cls != wantTerminal {
				msg := ""
				if err != nil {
					msg = err.Error()
				}
				c.Violate("C06:"+format+":terminal:"+wantTerminal+"->"+cls, fmt.Sprintf("after %d of %d expected records Read returned %s (%s)", i, len(exp), cls, core.Trunc(msg, 200)), detail(map[string]interface{}{"records_delivered": i}))
			}
			return
		}
		if i >= len(exp) {
			c.Violate("C06:"+format+":extra-record", fmt.Sprintf("a record was delivered beyond the %d the input contains", len(exp)), detail(map[string]interface{}{"bytes": string(b)}))
			return
		}
		rr, rerr := tr.RawRecord()
		if rerr != nil {
			c.Violate("C06:"+format+":rawrecord", "RawRecord failed after a successful Read", detail(nil))
			return
		}
		got, cnt := childTexts(rr.Raw().(*idr.Node))
		var out map[string]interface{}
		json.Unmarshal(b, &out)
		c.Inc("records_compared")
		for name, want := range exp[i].cols {
			c.Inc("cells_compared")
			g, present := got[name]
			switch {
			case want == nil && present:
				c.Violate("C06:"+format+":column-should-be-absent", fmt.Sprintf("record %d: column %q lies beyond the row and must yield nothing, got %q", i, name, g), detail(map[string]interface{}{"record": i, "column": name}))
				return
			case want == nil:
				c.Inc("cell:beyond-row")
				if ov, inOut := out[name]; inOut && ov != nil { // keep_empty_or_null keeps the absent value as null
					c.Violate("C06:"+format+":absent-column-in-output", fmt.Sprintf("record %d: column %q beyond the row shows up in the output", i, name), detail(map[string]interface{}{"record": i, "column": name, "bytes": string(b)}))
					return
				}
			case !present:
				c.Violate("C06:"+format+":column-missing", fmt.Sprintf("record %d: column %q has no node", i, name), detail(map[string]interface{}{"record": i, "column": name, "expected": *want}))
				return
			case g != *want:
				c.Violate("C06:"+format+":cell-text:"+c06CellClass(*want, g), fmt.Sprintf("record %d column %q: text differs from the input", i, name), detail(map[string]interface{}{"record": i, "column": name, "expected": *want, "got": g}))
				return
			case cnt[name] != 1:
				c.Violate("C06:"+format+":column-duplicated", fmt.Sprintf("record %d: column %q has %d nodes", i, name, cnt[name]), detail(map[string]interface{}{"record": i, "column": name}))
				return
			default:
				// through Read (no_trim + keep_empty_or_null pass-through)
				if ov, ok := out[name].(string); !ok || ov != *want {
					c.Violate("C06:"+format+":output-text", fmt.Sprintf("record %d column %q: Read's output differs from the input text", i, name), detail(map[string]interface{}{"record": i, "column": name, "expected": *want, "bytes": string(b)}))
					return
				}
			}
		}
	}
	c.Violate("C06:"+format+":no-terminal", "no terminal result after all expected records", detail(nil))
}

func c06CellClass(want, got string) string {
	switch {
	case strings.TrimSpace(want) == strings.TrimSpace(got):
		return "blanks"
	case strings.ReplaceAll(want, "\r", "") == strings.ReplaceAll(got, "\r", ""):
		return "carriage-return"
	case len(got) < len(want) && strings.HasPrefix(want, got):
		return "truncated"
	case len([]rune(got)) != len([]rune(want)):
		return "length"
	}
	return "content"
}

func passThroughDecl(names []string) map[string]interface{} {
	obj := map[string]interface{}{}
	for _, n := range names {
		obj[n] = map[string]interface{}{"xpath": n, "no_trim": true, "keep_empty_or_null": true}
	}
	return map[string]interface{}{"FINAL_OUTPUT": map[string]interface{}{"object": obj}}
}

func sp(s string) *string { return &s }

// csvNorm: what the Go csv decoder reports for a cell (CRLF inside quoted fields becomes LF).
func csvNorm(s string) string { return strings.ReplaceAll(s, "\r\n", "\n") }

func c06CSV(c *core.Ctx, v2 bool) {
	r := c.R
	format := "csv"
	if v2 {
		format = "csv2"
	}
	delim := r.Pick(",", ",", "\t", "|", ";", "§", "^", " ")
	ncol := r.Range(1, 6)
	names := make([]string, ncol)
	for i := range names {
		names[i] = fmt.Sprintf("c%d", i+1)
	}
	nrec := r.Range(1, 40)
	nl := func() string { return r.Pick("\n", "\n", "\r\n") }
	long := r.Chance(1, 25)
	if long {
		c.Inc("long_line_inputs")
	}
	var sb strings.Builder
	var exp []c06Expect
	nontrivial := false
	extra := map[string]interface{}{}
	doc := map[string]interface{}{"parser_settings": map[string]interface{}{"version": "omni.2.1", "file_format_type": format}}
	wantTerminal := omni.EOF
	if !v2 {
		// ---- old csv ----
		var cols []interface{}
		for _, n := range names {
			col := map[string]interface{}{"name": n}
			if r.Chance(1, 4) {
				col = map[string]interface{}{"name": "Header " + n + " #", "alias": n}
			}
			cols = append(cols, col)
		}
		fd := map[string]interface{}{"delimiter": delim, "columns": cols, "data_row_index": 1}
		headerMode := r.Intn(7) // 0,1: none; 2,3: matching header; 4: mismatching; 5: short header; 6: the declared names in another order
		line := 0
		if headerMode >= 2 {
			// lines the reader has to skip: plain ones, an empty line followed by a plain one, a quoted field that spans two lines (row
			// indexes count physical lines)
			skipped := func(what string, i int) {
				switch r.Intn(4) {
				case 0:
					sb.WriteString(nl())
					line++
					c.Inc("skipped_region:empty_line")
				case 1:
					sb.WriteString("\"" + what + nl() + "continued\"" + delim + "x" + nl())
					line += 2
					c.Inc("skipped_region:quoted_field_spanning_lines")
					return
				}
				sb.WriteString(what + " " + fmt.Sprint(i) + nl())
				line++
			}
			pre := r.Intn(3)
			for i := 0; i < pre; i++ {
				skipped("preamble", i)
			}
			var hcells []string
			for _, col := range cols {
				hcells = append(hcells, " "+col.(map[string]interface{})["name"].(string)+" ") // names are compared trimmed
			}
			if r.Bool() {
				hcells = append(hcells, "extra header column")
			}
			switch headerMode {
			case 4:
				k := r.Intn(len(hcells))
				hcells[k] = hcells[k] + "X"
				if k >= ncol {
					hcells[0] = "other"
				}
				c.Inc("header_mismatch_inputs")
				wantTerminal = omni.FATAL
			case 5:
				if ncol > 1 {
					hcells = hcells[:ncol-1]
					c.Inc("header_mismatch_inputs")
					wantTerminal = omni.FATAL
				}
			case 6:
				if ncol > 1 {
					// every declared name is there, two of them swapped (a rotation for three and more): still not the declared header
					if ncol == 2 || r.Bool() {
						i := r.Intn(ncol - 1)
						hcells[i], hcells[i+1] = hcells[i+1], hcells[i]
					} else {
						first := hcells[0]
						copy(hcells[:ncol-1], hcells[1:ncol])
						hcells[ncol-1] = first
					}
					c.Inc("header_mismatch_inputs")
					c.Inc("header_with_declared_names_in_another_order")
					wantTerminal = omni.FATAL
				}
			}
			sb.WriteString(gen.EncodeCSVRow(r, hcells, delim) + nl())
			line++
			fd["header_row_index"] = line
			gap := r.Intn(3)
			for i := 0; i < gap; i++ {
				skipped("between header and data", i)
			}
			fd["data_row_index"] = line + 1
		}
		doc["file_declaration"] = fd
		for i := 0; i < nrec; i++ {
			width := ncol
			switch r.Intn(6) {
			case 0:
				width = r.Range(1, ncol) // shorter
			case 1:
				width = ncol + r.Range(1, 2) // longer
			}
			cells := make([]string, width)
			for j := range cells {
				ml := 8
				if long && j == 0 && i%3 == 0 {
					ml = []int{4090, 4100, 8200, 65530, 66000}[r.Intn(5)]
				}
				cells[j] = c06Cell(r, ml, true)
				if c06ObserveCell(c, cells[j], delim) {
					nontrivial = true
				}
			}
			if width == 1 && cells[0] == "" {
				cells[0] = "x" // a row consisting of one empty field is an empty line
			}
			e := c06Expect{cols: map[string]*string{}}
			for j, n := range names {
				if j < width {
					e.cols[n] = sp(csvNorm(cells[j]))
				} else {
					e.cols[n] = nil
					nontrivial = true
				}
			}
			if wantTerminal == omni.EOF {
				exp = append(exp, e)
			}
			sb.WriteString(gen.EncodeCSVRow(r, cells, delim))
			if i < nrec-1 || r.Chance(2, 3) {
				sb.WriteString(nl())
			}
			if r.Chance(1, 8) && i < nrec-1 {
				sb.WriteString(nl()) // blank line
				c.Inc("blank_lines")
			}
		}
	} else {
		// ---- csv2 ----
		rows := 1
		hf := false
		if r.Chance(1, 3) {
			rows = r.Range(2, 3)
			hf = r.Bool()
			c.Inc("multiline_record_schemas")
		}
		// column layout: index with gaps and repeats, line selection
		type colSpec struct {
			name  string
			index int
			line  int
		}
		var specs []colSpec
		var cols []interface{}
		prevIdx := 0
		usePattern := r.Bool()
		for _, n := range names {
			cs := colSpec{name: n, line: r.Intn(rows)}
			col := map[string]interface{}{"name": n}
			if r.Chance(1, 2) {
				cs.index = r.Range(1, ncol+2)
				col["index"] = cs.index
			} else {
				cs.index = prevIdx + 1
			}
			prevIdx = cs.index
			if rows > 1 {
				if usePattern || hf {
					col["line_pattern"] = fmt.Sprintf("^L%d", cs.line)
				} else {
					col["line_index"] = cs.line + 1
				}
			}
			specs = append(specs, cs)
			cols = append(cols, col)
		}
		rec := map[string]interface{}{"name": "rec", "is_target": true, "columns": cols}
		if rows > 1 {
			if hf {
				rec["header"], rec["footer"] = "^L0", fmt.Sprintf("^L%d", rows-1)
			} else {
				rec["rows"] = rows
			}
		}
		doc["file_declaration"] = map[string]interface{}{"delimiter": delim, "records": []interface{}{rec}}
		for i := 0; i < nrec; i++ {
			lines := make([][]string, rows)
			for li := 0; li < rows; li++ {
				width := ncol + 1
				switch r.Intn(6) {
				case 0:
					width = r.Range(1, ncol+1)
				case 1:
					width = ncol + r.Range(2, 3)
				}
				cells := make([]string, width)
				for j := range cells {
					cells[j] = c06Cell(r, 8, true)
					if rows > 1 && j == 0 {
						cells[j] = fmt.Sprintf("L%d", li) // line tag in the first cell of multi-line records
					}
					if long && j == 1 && i%3 == 0 {
						cells[j] = c06Cell(r, []int{4090, 4100, 8200, 65530, 66000}[r.Intn(5)], true)
					}
					if c06ObserveCell(c, cells[j], delim) {
						nontrivial = true
					}
				}
				if width == 1 && cells[0] == "" {
					cells[0] = "x"
				}
				lines[li] = cells
			}
			if rows > 1 {
				c.Inc("multiline_records")
			}
			e := c06Expect{cols: map[string]*string{}}
			for _, cs := range specs {
				cells := lines[cs.line]
				if cs.index >= 1 && cs.index <= len(cells) {
					e.cols[cs.name] = sp(csvNorm(cells[cs.index-1]))
				} else {
					e.cols[cs.name] = sp("") // csv2: a column beyond the row is an empty text node
					c.Inc("cell:beyond-row")
					nontrivial = true
				}
			}
			exp = append(exp, e)
			for li, cells := range lines {
				sb.WriteString(gen.EncodeCSVRow(r, cells, delim))
				if i < nrec-1 || li < rows-1 || r.Chance(2, 3) {
					sb.WriteString(nl())
				}
			}
			if r.Chance(1, 8) && i < nrec-1 {
				sb.WriteString(nl())
				c.Inc("blank_lines")
			}
		}
	}
	doc["transform_declarations"] = passThroughDecl(names)
	schema, _ := json.Marshal(doc)
	c06Drive(c, format, schema, []byte(sb.String()), exp, wantTerminal, extra, nontrivial)
	if c.Idx < 8 {
		c.Sample(map[string]interface{}{"format": format, "delimiter": delim, "input": core.Trunc(sb.String(), 240)})
	}
}

func runeSlice(line string, start, length int) string {
	rs := []rune(line)
	if start-1 >= len(rs) {
		return ""
	}
	end := start - 1 + length
	if end > len(rs) {
		end = len(rs)
	}
	return string(rs[start-1 : end])
}

var c06LineRunes = []rune("abcdefghijABCXYZ0123456789     \t,;|\"'§éß中€😀-_/.:*~")

func c06Line(r *core.Rand, n int) string {
	var sb strings.Builder
	for i := 0; i < n; i++ {
		sb.WriteRune(c06LineRunes[r.Intn(len(c06LineRunes))])
	}
	return sb.String()
}

func c06Fixed(c *core.Ctx, v2 bool) {
	r := c.R
	format := "fixed-length"
	if v2 {
		format = "fixedlength2"
	}
	ncol := r.Range(1, 6)
	rows := 1
	hf := false
	if r.Chance(1, 3) {
		rows = r.Range(2, 3)
		hf = r.Bool()
	}
	long := r.Chance(1, 20)
	if long {
		c.Inc("long_line_inputs")
	}
	lineLen := r.Range(4, 40)
	type colSpec struct {
		name          string
		start, length int
		line          int
	}
	var specs []colSpec
	var cols []interface{}
	usePattern := r.Bool()
	for i := 0; i < ncol; i++ {
		cs := colSpec{name: fmt.Sprintf("c%d", i+1), start: r.Range(1, lineLen+6), length: r.Range(1, 12), line: r.Intn(rows)}
		if rows > 1 && cs.start < 3 && r.Bool() {
			cs.start = 3 // after the tag, mostly
		}
		if long && i == 0 {
			cs.start, cs.length = r.Range(1, 4200), r.Range(1, 70000)
		}
		col := map[string]interface{}{"name": cs.name, "start_pos": cs.start, "length": cs.length}
		if rows > 1 {
			if !v2 || usePattern || hf {
				col["line_pattern"] = fmt.Sprintf("^L%d", cs.line)
			} else {
				col["line_index"] = cs.line + 1
			}
		}
		specs = append(specs, cs)
		cols = append(cols, col)
	}
	doc := map[string]interface{}{"parser_settings": map[string]interface{}{"version": "omni.2.1", "file_format_type": format}}
	if v2 {
		env := map[string]interface{}{"name": "rec", "is_target": true, "columns": cols}
		if rows > 1 {
			if hf {
				env["header"], env["footer"] = "^L0", fmt.Sprintf("^L%d", rows-1)
			} else {
				env["rows"] = rows
			}
		}
		doc["file_declaration"] = map[string]interface{}{"envelopes": []interface{}{env}}
	} else {
		env := map[string]interface{}{"columns": cols}
		if rows > 1 {
			if hf {
				env["name"] = "rec"
				env["by_header_footer"] = map[string]interface{}{"header": "^L0", "footer": fmt.Sprintf("^L%d", rows-1)}
			} else {
				env["by_rows"] = rows
			}
		}
		doc["file_declaration"] = map[string]interface{}{"envelopes": []interface{}{env}}
	}
	var names []string
	for _, cs := range specs {
		names = append(names, cs.name)
	}
	doc["transform_declarations"] = passThroughDecl(names)
	schema, _ := json.Marshal(doc)
	nrec := r.Range(1, 40)
	if r.Chance(1, 6) {
		// enough records for the reader's buffer to be refilled several times, at whatever alignment the line lengths give
		nrec = r.Range(100, 400)
		c.Inc("inputs_with_100plus_records")
	}
	blankInside := rows > 1 && r.Chance(1, 3) // empty lines (which the readers skip) also between the rows of one record
	var sb strings.Builder
	var exp []c06Expect
	nontrivial := false
	for i := 0; i < nrec; i++ {
		lines := make([]string, rows)
		for li := range lines {
			n := r.Range(1, lineLen+4)
			if long && i%3 == 0 && li == 0 {
				n = []int{4090, 4096, 4100, 8190, 65530, 65540}[r.Intn(6)]
			}
			l := c06Line(r, n)
			if rows > 1 {
				l = fmt.Sprintf("L%d", li) + l
			}
			if strings.TrimRight(l, "\r") != l {
				l += "."
			}
			lines[li] = l
		}
		if rows > 1 {
			c.Inc("multiline_records")
		}
		e := c06Expect{cols: map[string]*string{}}
		for _, cs := range specs {
			v := runeSlice(lines[cs.line], cs.start, cs.length)
			e.cols[cs.name] = sp(v)
			if c06ObserveCell(c, v, "") {
				nontrivial = true
			}
			if cs.start-1+cs.length > len([]rune(lines[cs.line])) {
				c.Inc("cell:beyond-row")
				nontrivial = true
			}
		}
		exp = append(exp, e)
		for li, l := range lines {
			sb.WriteString(l)
			if i < nrec-1 || li < rows-1 || r.Chance(2, 3) {
				sb.WriteString(r.Pick("\n", "\n", "\r\n"))
			}
			if blankInside && li < rows-1 && r.Chance(1, 3) {
				sb.WriteString(r.Pick("\n", "\r\n", "\n\n"))
				c.Inc("blank_lines_inside_a_record")
			}
		}
		if r.Chance(1, 8) && i < nrec-1 {
			sb.WriteString(r.Pick("\n", "\r\n"))
			c.Inc("blank_lines")
		}
	}
	c06Drive(c, format, schema, []byte(sb.String()), exp, omni.EOF, map[string]interface{}{"rows_per_record": rows, "header_footer": hf}, nontrivial)
	if c.Idx < 8 {
		c.Sample(map[string]interface{}{"format": format, "columns": cols, "input": core.Trunc(sb.String(), 240)})
	}
}
