package props

import (
	"encoding/xml"
	"fmt"
	"strconv"
	"strings"

	"github.com/antchfx/xmlquery"
	"github.com/antchfx/xpath"
	"github.com/jf-tech/omniparser/idr"

	"verif/harness/core"
	"verif/harness/gen"
	"verif/harness/ref"
)

// C11 — XPath queries over the node tree agree with the reference XML DOM binding (antchfx/xmlquery) of the same engine.

func init() {
	core.Register(&core.Prop{
		ID:    "C11",
		Level: "exploration",
		Rule: "each case = one generated XML document x 40 generated expressions (axes, node tests, positional/string predicates, functions, unions) evaluated " +
			"from the document node and from random inner elements through idr.MatchAll and, on an xmlquery tree built by the harness from the standard " +
			"decoder's tokens, through xmlquery's navigator. Compared: node identity (unique id / owner+name / owner+ordinal), order, string-value. " +
			"distinct = (document, expression, context) digests with a non-empty result; non-trivial = non-empty result.",
		Assumptions: []string{
			"antchfx/xpath (the engine both bindings share) is trusted; antchfx/xmlquery's navigator is the reference binding",
			"xmlquery tree is built by the harness (elements, attributes in Attr with prefix in Name.Space, text nodes); no comment/declaration nodes, which idr does not represent",
			"expressions on which the engine panics or errs for both bindings are counted, not compared",
			"namespace-uri() is not applied to attribute nodes (xmlquery reports the owner element's URI there)",
		},
		Cases: func(t core.Tier) int {
			if t == core.Thorough {
				return 40000
			}
			return 2000
		},
		Run: runC11,
		Min: func(t core.Tier) map[string]int64 {
			return map[string]int64{"queries": 15000, "nonempty_results": 3000, "inner_context_queries": 3000, "axis:attribute": 300, "axis:ancestor": 100,
				"axis:following-sibling": 100, "axis:preceding": 100, "pred:positional": 500}
		},
	})
}

type c11Key struct {
	key, val string
}

func idrElemID(n *idr.Node) string {
	for ch := n.FirstChild; ch != nil && ch.Type == idr.AttributeNode; ch = ch.NextSibling {
		if ch.Data == "id" {
			if fs, ok := ch.FormatSpecific.(idr.XMLSpecific); !ok || fs.NamespacePrefix == "" {
				return ch.InnerText()
			}
		}
	}
	return "?"
}

func idrNodeKey(n *idr.Node) string {
	switch n.Type {
	case idr.DocumentNode:
		return "d"
	case idr.ElementNode:
		return "e:" + idrElemID(n)
	case idr.AttributeNode:
		fs, _ := n.FormatSpecific.(idr.XMLSpecific)
		owner := "?"
		if n.Parent != nil {
			owner = idrNodeKey(n.Parent)
		}
		return "a:" + owner + ":" + fs.NamespacePrefix + ":" + n.Data
	case idr.TextNode:
		if n.Parent == nil {
			return "t:?"
		}
		if n.Parent.Type == idr.AttributeNode {
			return "at:" + idrNodeKey(n.Parent)
		}
		ord := 0
		for s := n.Parent.FirstChild; s != nil && s != n; s = s.NextSibling {
			if s.Type == idr.TextNode {
				ord++
			}
		}
		return "t:" + idrNodeKey(n.Parent) + ":" + strconv.Itoa(ord)
	}
	return "?"
}

// buildXQ converts the mirror into an xmlquery tree; keys maps every xmlquery node to its identity key.
func buildXQ(m *ref.MNode, parent *xmlquery.Node, keys map[*xmlquery.Node]string, byKey map[string]*xmlquery.Node) *xmlquery.Node {
	var n *xmlquery.Node
	switch m.Kind {
	case "doc":
		n = &xmlquery.Node{Type: xmlquery.DocumentNode}
		keys[n] = "d"
	case "elem":
		n = &xmlquery.Node{Type: xmlquery.ElementNode, Data: m.Local, Prefix: m.Prefix, NamespaceURI: m.Space}
		id, _ := m.Attr("id")
		keys[n] = "e:" + id
		for _, a := range m.Attrs {
			n.Attr = append(n.Attr, xml.Attr{Name: xml.Name{Space: a.Prefix, Local: a.Local}, Value: a.Value})
		}
	case "text":
		n = &xmlquery.Node{Type: xmlquery.TextNode, Data: m.Value}
		ord := 0
		for s := parent.FirstChild; s != nil; s = s.NextSibling {
			if s.Type == xmlquery.TextNode {
				ord++
			}
		}
		keys[n] = "t:" + keys[parent] + ":" + strconv.Itoa(ord)
	}
	byKey[keys[n]] = n
	if parent != nil {
		n.Parent = parent
		if parent.FirstChild == nil {
			parent.FirstChild = n
		} else {
			parent.LastChild.NextSibling = n
			n.PrevSibling = parent.LastChild
		}
		parent.LastChild = n
	}
	for _, ch := range m.Children {
		buildXQ(ch, n, keys, byKey)
	}
	return n
}

// refNav is xmlquery's navigator with one documented correction: xmlquery v1.3.1 reports "" as the string-value of the
// document node, whereas XPath 1.0 (section 5.1) defines it as the concatenation of all descendant text nodes. Without
// the correction the reference binding, not idr, is the one that deviates (see DESIGN.md corrections log).
type refNav struct{ *xmlquery.NodeNavigator }

func (n refNav) Value() string {
	if n.NodeNavigator.NodeType() == xpath.RootNode {
		return n.Current().InnerText()
	}
	return n.NodeNavigator.Value()
}
func (n refNav) String() string { return n.Value() }
func (n refNav) Copy() xpath.NodeNavigator {
	return refNav{n.NodeNavigator.Copy().(*xmlquery.NodeNavigator)}
}
func (n refNav) MoveTo(o xpath.NodeNavigator) bool {
	on, ok := o.(refNav)
	if !ok {
		return false
	}
	return n.NodeNavigator.MoveTo(on.NodeNavigator)
}

type c11Gen struct {
	r     *core.Rand
	names []string
	ns    bool
	c     *core.Ctx
}

func (g *c11Gen) name() string {
	n := g.names[g.r.Intn(len(g.names))]
	if g.ns && g.r.Chance(1, 4) {
		return g.r.Pick("p", "q", "r") + ":" + n
	}
	return n
}

func (g *c11Gen) attrName() string {
	if g.ns && g.r.Chance(1, 8) {
		return g.r.Pick("p:k", "q:v", "xml:lang", "p:a", "r:t")
	}
	return g.r.Pick("id", "k", "v", "t", "a")
}

func (g *c11Gen) lit() string {
	return "'" + g.r.Pick("x", "y", "1", "2", "10", "e2", "e5", "a", "") + "'"
}

func (g *c11Gen) nodeTest(axis string) string {
	if axis == "attribute" {
		if g.r.Chance(1, 4) {
			return "*"
		}
		return g.attrName()
	}
	switch g.r.Intn(10) {
	case 0:
		return "*"
	case 1:
		return "node()"
	case 2:
		return "text()"
	default:
		return g.name()
	}
}

var c11Axes = []string{"child", "child", "child", "descendant", "descendant-or-self", "parent", "ancestor", "ancestor-or-self",
	"following-sibling", "preceding-sibling", "following", "preceding", "attribute", "self"}

func (g *c11Gen) predicate(depth int) string {
	r := g.r
	switch r.Intn(16) {
	case 0:
		g.c.Inc("pred:positional")
		return strconv.Itoa(r.Range(1, 3))
	case 1:
		g.c.Inc("pred:positional")
		return "last()"
	case 2:
		g.c.Inc("pred:positional")
		return "position()" + r.Pick("<", ">", "=", "<=", "!=") + strconv.Itoa(r.Range(1, 3))
	case 3:
		return "@" + g.attrName()
	case 4:
		return "@" + g.attrName() + r.Pick("=", "!=") + g.lit()
	case 5:
		return g.name() + r.Pick("=", "!=", "<", ">") + g.lit()
	case 6:
		return "." + r.Pick("=", "!=") + g.lit()
	case 7:
		g.c.Inc("fn:contains")
		return r.Pick("contains", "starts-with") + "(" + r.Pick(".", "@id", "name()", g.name()) + "," + g.lit() + ")"
	case 8:
		g.c.Inc("fn:count")
		return "count(" + g.relPath(depth+1) + ")" + r.Pick(">", "=", "<") + strconv.Itoa(r.Range(0, 2))
	case 9:
		return "not(" + g.relPath(depth+1) + ")"
	case 10:
		return g.name() + " " + r.Pick("and", "or") + " @" + g.attrName()
	case 11:
		g.c.Inc("fn:string-length")
		return "string-length(" + r.Pick(".", "@id", "name()") + ")" + r.Pick(">", "=", "<") + strconv.Itoa(r.Range(0, 4))
	case 12:
		g.c.Inc("fn:normalize-space")
		return "normalize-space(" + r.Pick(".", g.name()) + ")=" + g.lit()
	case 13:
		g.c.Inc("fn:name")
		return r.Pick("local-name()", "name()") + "=" + "'" + g.name() + "'"
	case 14:
		g.c.Inc("fn:sum")
		return r.Pick("sum(", "number(", "string(") + r.Pick(g.name(), "@v", ".") + ")" + r.Pick(">1", "=1", "!=2")
	default:
		g.c.Inc("fn:concat")
		return "concat(@id,'-'," + r.Pick("name()", "@k") + ")" + r.Pick("=", "!=") + "'" + r.Pick("e2-a", "e3-b", "e1-") + "'"
	}
}

func (g *c11Gen) step(depth int) string {
	r := g.r
	var s string
	switch r.Intn(12) {
	case 0:
		s = "."
	case 1:
		s = ".."
		g.c.Inc("axis:parent")
	case 2:
		s = "@" + g.nodeTest("attribute")
		g.c.Inc("axis:attribute")
	case 3, 4, 5:
		s = g.nodeTest("child")
		g.c.Inc("axis:child")
	default:
		ax := c11Axes[r.Intn(len(c11Axes))]
		g.c.Inc("axis:" + ax)
		s = ax + "::" + g.nodeTest(ax)
	}
	if s != "." && s != ".." && depth < 2 {
		for r.Chance(1, 3) {
			s += "[" + g.predicate(depth) + "]"
		}
	}
	return s
}

func (g *c11Gen) relPath(depth int) string {
	n := g.r.Range(1, 3)
	var parts []string
	for i := 0; i < n; i++ {
		parts = append(parts, g.step(depth))
	}
	sep := "/"
	s := parts[0]
	for _, p := range parts[1:] {
		sep = "/"
		if g.r.Chance(1, 5) {
			sep = "//"
		}
		s += sep + p
	}
	return s
}

func (g *c11Gen) expr() string {
	r := g.r
	p := g.relPath(0)
	switch r.Intn(6) {
	case 0:
		p = "/" + p
	case 1:
		p = "//" + p
	case 2:
		p = ".//" + p
	}
	if r.Chance(1, 10) {
		g.c.Inc("union")
		p = p + " | " + g.relPath(0)
	}
	if r.Chance(1, 15) {
		p = "(" + p + ")[" + strconv.Itoa(r.Range(1, 3)) + "]"
		g.c.Inc("pred:positional")
	}
	return p
}

func runC11(c *core.Ctx) {
	r := c.R
	o := gen.XMLOpts{MaxDepth: r.Range(2, 6), MaxFan: r.Range(2, 4), Names: []string{"a", "b", "c", "item"}, Namespaces: r.Chance(1, 2), Mixed: r.Bool(),
		Noise: r.Chance(1, 3), AttrProb: 6, TextValues: []string{"x", "y", "1", "2", "10", " x ", "a b"}} // comments and PIs are not represented in either tree; they split character data
	root := gen.GenXML(r, o)
	doc := gen.EncodeXML(r, root, false)
	m, err := ref.BuildXMLMirror([]byte(doc))
	if err != nil {
		c.Inconclusive("harness XML serialiser produced a document the standard decoder rejects: " + err.Error())
		return
	}
	for i, ch := range m.Children {
		if ch.Kind == "elem" {
			m.Children = m.Children[:i+1]
			break
		}
	}
	inode, err := xmlTreeOf(doc)
	if err != nil {
		c.Violate("C11:xml-read-error", "reading a well-formed XML document failed: "+err.Error(), map[string]interface{}{"doc": doc})
		return
	}
	keys := map[*xmlquery.Node]string{}
	byKey := map[string]*xmlquery.Node{}
	buildXQ(m, nil, keys, byKey)
	// idr elements by key
	idrByKey := map[string]*idr.Node{"d": inode}
	var elemKeys []string
	var walk func(n *idr.Node)
	walk = func(n *idr.Node) {
		if n.Type == idr.ElementNode {
			k := idrNodeKey(n)
			idrByKey[k] = n
			elemKeys = append(elemKeys, k)
		}
		for ch := n.FirstChild; ch != nil; ch = ch.NextSibling {
			if ch.Type == idr.ElementNode {
				walk(ch)
			}
		}
	}
	walk(inode)
	g := &c11Gen{r: r, names: o.Names, ns: o.Namespaces, c: c}
	nq := 40
	if c.Tier == core.Thorough {
		nq = 100
	}
	for q := 0; q < nq; q++ {
		ex := g.expr()
		ctxKey := "d"
		if r.Chance(1, 2) && len(elemKeys) > 0 {
			ctxKey = elemKeys[r.Intn(len(elemKeys))]
			c.Inc("inner_context_queries")
		}
		xctx := byKey[ctxKey]
		ictx := idrByKey[ctxKey]
		if xctx == nil || ictx == nil {
			c.Violate("C11:tree-mismatch", "element ids of the idr tree and the mirror disagree", map[string]interface{}{"doc": doc, "key": ctxKey})
			return
		}
		// a logical cost bound instead of a wall clock: every document-wide axis multiplies the work by the size of the document (the engine
		// re-walks it per context node and reports a node once per route); combinations that exceed the budget are not evaluated
		wide := strings.Count(ex, "following::") + strings.Count(ex, "preceding::") + strings.Count(ex, "descendant") + strings.Count(ex, "//") + strings.Count(ex, "ancestor")
		cost := 1.0
		for i := 0; i < wide; i++ {
			cost *= float64(len(elemKeys) + 1)
		}
		if cost > 5e6 {
			c.Inc("expressions_over_the_cost_budget")
			continue
		}
		c.Inc("queries")
		c.Inc("evaluations")
		// reference
		var want []c11Key
		var werr error
		wp := core.Guard(func() {
			var e *xpath.Expr
			e, werr = xpath.Compile(ex)
			if werr != nil {
				return
			}
			it := e.Select(refNav{xmlquery.CreateXPathNavigator(xctx)})
			for it.MoveNext() {
				nav := it.Current().(refNav)
				cur := nav.Current()
				k := keys[cur]
				if nav.NodeType() == xpath.AttributeNode {
					k = "a:" + k + ":" + nav.Prefix() + ":" + nav.LocalName()
				}
				want = append(want, c11Key{k, nav.Value()})
				if len(want) > 5000 {
					break
				}
			}
		})
		if len(want) > 5000 {
			c.Inc("result_sets_over_5000_not_compared") // idr.MatchAll cannot be stopped early
			continue
		}
		// idr
		var got []c11Key
		var gerr error
		gp := core.Guard(func() {
			var ns []*idr.Node
			ns, gerr = idr.MatchAll(ictx, ex, idr.DisableXPathCache)
			for _, n := range ns {
				got = append(got, c11Key{idrNodeKey(n), n.InnerText()})
				if len(got) > 5000 {
					break
				}
			}
		})
		detail := func() map[string]interface{} {
			return map[string]interface{}{"doc": doc, "xpath": ex, "context": ctxKey, "idr": fmt.Sprint(got), "xmlquery": fmt.Sprint(want),
				"idr_error": fmt.Sprint(gerr), "xmlquery_error": fmt.Sprint(werr)}
		}
		switch {
		case wp != nil && gp != nil:
			c.Inc("both_panic")
			continue
		case wp != nil && gp == nil && gerr != nil && strings.Contains(gerr.Error(), "evaluation failed"):
			// the shared engine panics on this (expression, document) in the reference binding; idr reports the same engine
			// failure as an error since the fix for F7 (DESIGN.md section 6): both fail, nothing to compare
			c.Inc("both_engine_failure")
			continue
		case wp != nil || gp != nil:
			d := detail()
			if gp != nil {
				d["idr_panic"] = gp.Value
				c.Violate("C11:panic-idr-only:"+gp.Site, "query panics over the idr tree but not over the reference DOM: "+gp.Value, d)
			} else {
				d["xmlquery_panic"] = wp.Value
				c.Violate("C11:panic-reference-only:"+core.PanicClass(wp.Value), "query panics over the reference DOM but not over the idr tree", d)
			}
			continue
		case (werr != nil) != (gerr != nil):
			c.Violate("C11:error-mismatch", "one binding reports an error, the other does not", detail())
			continue
		case werr != nil:
			c.Inc("both_error")
			continue
		}
		if len(want) > 0 {
			c.Inc("nonempty_results")
			c.Distinct(doc, ex, ctxKey)
		}
		c.Count("result_nodes", int64(len(want)))
		same := len(got) == len(want)
		if same {
			for i := range want {
				if got[i] != want[i] {
					same = false
					break
				}
			}
		}
		if !same {
			c.Violate("C11:result-mismatch:"+c11DiffClass(got, want, ex), "idr.MatchAll and the reference DOM disagree", detail())
		}
	}
	if c.Idx < 6 {
		c.Sample(map[string]interface{}{"doc": core.Trunc(doc, 300), "example_xpath": g.expr()})
	}
}

func c11DiffClass(got, want []c11Key, ex string) string {
	gs := map[string]string{}
	for _, g := range got {
		gs[g.key] = g.val
	}
	ws := map[string]string{}
	for _, w := range want {
		ws[w.key] = w.val
	}
	cls := ""
	switch {
	case len(gs) == len(ws):
		sameSet, sameVals := true, true
		for k, v := range ws {
			gv, ok := gs[k]
			if !ok {
				sameSet = false
			} else if gv != v {
				sameVals = false
			}
		}
		switch {
		case !sameSet:
			cls = "different-nodes"
		case !sameVals:
			cls = "string-value"
		case len(got) != len(want):
			cls = "duplicates"
		default:
			cls = "order"
		}
	case len(gs) < len(ws):
		cls = "missing-nodes"
	default:
		cls = "extra-nodes"
	}
	// which axis family is involved (coarse; part of the signature so distinct root causes stay distinct)
	for _, ax := range []string{"preceding-sibling", "following-sibling", "preceding", "following", "ancestor", "attribute", "@", "text()", "node()", ".."} {
		if strings.Contains(ex, ax) {
			return cls + ":" + ax
		}
	}
	return cls + ":child/descendant"
}
