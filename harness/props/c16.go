package props

import (
	"bytes"
	"fmt"
	"strings"

	"github.com/jf-tech/omniparser/transformctx"

	"verif/harness/core"
	"verif/harness/gen"
	"verif/harness/mon"
	"verif/harness/omni"
)

// C16 — input reader failures end the transform with a fatal error.

func init() {
	core.Register(&core.Prop{
		ID:    "C16",
		Level: "fault_enumeration",
		Rule: "each case = one small generated input of one of the seven formats (3-12 records; header rows, multi-line records, BOM, ignore_crlf / " +
			"replace_double_quotes wrappers, target filters, failing records); EVERY byte offset k in [0,len] is a fault point, each with three fault kinds " +
			"(persistent; fail once, deliver a few more bytes, then fail forever; data returned together with the error). After the fault has been handed to " +
			"the library a non-continuable, non-EOF error must surface within R+2 Reads (R = records of the fault-free run), must be sticky, and every " +
			"earlier result except possibly the last must equal the fault-free transcript. Fault kinds: persistent; fail once, a few more bytes, then persistent; data together with the error, then persistent; data together with the error once, more bytes, then persistent. distinct = (input, offset, kind) runs in which the fault was " +
			"actually consumed; non-trivial = fault consumed inside the data (not before the first byte).",
		Assumptions: []string{
			"the fault reader fails with a plain errors.New value that is neither io.EOF nor io.ErrUnexpectedEOF",
			"a fault the library never reads up to (because it stopped earlier for another fatal reason) is not an observation and is not counted",
		},
		Cases: func(t core.Tier) int {
			if t == core.Thorough {
				return 1050
			}
			return 42
		},
		Run:             runC16,
		HangIsViolation: true,
		Min: func(t core.Tier) map[string]int64 {
			return map[string]int64{"fault_runs_consumed": 10000, "pos:before-first-byte": 40, "pos:inside-data": 5000, "pos:at-end": 40, "kind:transient": 1000}
		},
	})
}

func runC16(c *core.Ctx) {
	r := c.R
	format := gen.Formats[c.Idx%len(gen.Formats)]
	k := gen.NewKit(r, format)
	n := r.Range(3, 12)
	if c.Tier == core.Quick {
		n = r.Range(3, 7)
	}
	var recs []gen.Rec
	for i := 0; i < n; i++ {
		rec := k.GenRec(r, i)
		for j := range rec.F {
			if len(rec.F[j]) > 6 {
				rec.F[j] = string([]rune(rec.F[j])[:3])
			}
		}
		if r.Chance(1, 6) {
			rec.Num = "x"
		}
		if r.Chance(1, 8) {
			rec.Num = "0"
		}
		recs = append(recs, rec)
	}
	mode := r.Pick(gen.ModePass, gen.ModeFailing, gen.ModeFilter)
	schema := k.Schema(mode)
	input := k.Render(r, recs, gen.RenderOpts{NoFinalTerminator: r.Chance(1, 3), BlankLines: r.Chance(1, 3), CRLF: r.Chance(1, 4), BOM: r.Chance(1, 5)})
	s, err := omni.NewSchema(schema)
	if err != nil {
		c.Inconclusive("kit schema rejected: " + err.Error())
		return
	}
	base := omni.RunAll(s, bytes.NewReader(input), omni.RunOpts{MaxReads: 1000, NoRaw: true})
	R := 0
	for _, st := range base {
		if st.Class == omni.OK || st.Class == omni.FAIL {
			R++
		}
	}
	c.Inc("inputs")
	c.Inc("inputs:" + format)
	c.Count("input_bytes", int64(len(input)))
	kinds := []string{"persistent", "transient", "with-data", "transient-with-data"}
	for off := 0; off <= len(input); off++ {
		for _, kind := range kinds {
			c.Inc("fault_runs")
			c.Inc("evaluations")
			sizes := func() int { return r.Range(1, 40) }
			extra := r.Range(1, 30)
			if kind == "transient-with-data" {
				extra = r.Range(1, 150)
			}
			fr := mon.NewFaultReader(input, off, kind, sizes, extra)
			if (off+len(kind))%4 == 0 {
				fr.Err = mon.ErrInjectedWrappingEOF // a quarter of the faults are failures that wrap io.EOF without being io.EOF
				c.Inc("faults_wrapping_eof")
			}
			fr.SpinLimit = 100000
			detail := func(tr omni.Transcript) map[string]interface{} {
				return map[string]interface{}{"format": format, "schema": string(schema), "input": string(input), "fault_offset": off, "fault_kind": kind,
					"fault_free_classes": base.Classes(), "observed_classes": core.Trunc(tr.Classes(), 400), "observed_tail": tailSteps(tr, 4)}
			}
			var tr omni.Transcript
			tfm, nerr := s.NewTransform("in", fr, &transformctx.Ctx{})
			if nerr != nil {
				if fr.Faulted() {
					c.Inc("fault_runs_consumed")
					c.Inc("surfaced_by:NewTransform")
					c16Pos(c, off, len(input))
					c.Inc("kind:" + kind)
				}
				continue
			}
			faultAt := -1 // index of the first Read after which the fault had been handed out
			fatalAt := -1
			spin := false
			limit := R + 40
			pi := core.Guard(func() {
				for i := 0; i < limit+R+5; i++ {
					st := omni.ReadStep(tfm, false)
					tr = append(tr, st)
					if faultAt < 0 && fr.Faulted() {
						faultAt = i
					}
					if st.Class == omni.EOF || st.Class == omni.FATAL {
						fatalAt = i
						// stickiness
						for j := 0; j < 2; j++ {
							tr = append(tr, omni.ReadStep(tfm, false))
						}
						return
					}
				}
			})
			if pi != nil {
				if strings.Contains(pi.Value, "polled after EOF") {
					spin = true
				} else {
					panic(fmt.Sprintf("%s\n%s", pi.Value, pi.Stack)) // re-raise: classified by the case wrapper
				}
			}
			if !fr.Faulted() {
				c.Inc("fault_not_reached")
				continue
			}
			c.Inc("fault_runs_consumed")
			c.Inc("kind:" + kind)
			c16Pos(c, off, len(input))
			if off > 0 {
				c.Distinct(string(input), fmt.Sprint(off), kind)
			}
			sig := "C16:" + format + ":" + kind + ":"
			switch {
			case spin:
				c.Violate(sig+"spin", "the library kept polling a failing reader (100000 calls) without returning", detail(tr))
				continue
			case fatalAt < 0:
				c.Violate(sig+"no-fatal", fmt.Sprintf("reader failed at offset %d but %d further Reads produced no terminal error (fault-free run has %d records)", off, len(tr)-faultAt-1, R), detail(tr))
				continue
			}
			term := tr[fatalAt]
			if term.Class == omni.EOF {
				cause := "other"
				if format == "fixed-length" && k.HF && k.Rows > 1 {
					// which line did the fault cut, and does the delivered part of it still match the record header?
					ls := bytes.LastIndexByte(input[:off], '\n') + 1
					part := string(input[ls:off])
					if off < len(input) && !strings.HasPrefix(part, "H:") {
						cause = "partial-line-matches-no-envelope-header"
					}
				}
				c.Violate(sig+"eof-instead-of-fatal:"+cause, fmt.Sprintf("reader failed at offset %d of %d but the transform ended with io.EOF: the failure was swallowed", off, len(input)), detail(tr))
				continue
			}
			c.Max("reads_from_fault_to_fatal", int64(fatalAt-faultAt))
			if fatalAt-faultAt > R+2 {
				c.Violate(sig+"late-fatal", fmt.Sprintf("fatal error surfaced %d Reads after the fault (bound R+2 = %d)", fatalAt-faultAt, R+2), detail(tr))
				continue
			}
			c.Inc("surfaced_by:Read")
			// sticky
			for j := fatalAt + 1; j < len(tr); j++ {
				if tr[j].Class != term.Class || tr[j].ErrMsg != term.ErrMsg || tr[j].ErrType != term.ErrType {
					c.Violate(sig+"not-sticky", "terminal error changed on a later Read", detail(tr))
					break
				}
			}
			// prefix: every result before the terminal one, except possibly the last, equals the fault-free run
			for i := 0; i < fatalAt-1; i++ {
				if i >= len(base) || tr[i].Class != base[i].Class || tr[i].Bytes != base[i].Bytes || maskLine(tr[i].ErrMsg, format) != maskLine(base[i].ErrMsg, format) {
					d := detail(tr)
					d["position"] = i
					if i < len(base) {
						d["fault_free_step"] = base[i]
					}
					d["observed_step"] = tr[i]
					c.Violate(sig+"prefix-differs", fmt.Sprintf("result %d before the fatal error differs from the fault-free run", i), d)
					break
				}
			}
			c.Inc("prefix_comparisons")
		}
	}
	if c.Idx < 14 {
		c.Sample(map[string]interface{}{"format": format, "input": core.Trunc(string(input), 200), "fault_points": len(input) + 1, "fault_free_classes": base.Classes()})
	}
}

// maskLine masks the (documented as rough) line number of json/xml error prefixes, exactly as C09 does.
func maskLine(s, format string) string {
	if format != "json" && format != "xml" {
		return s
	}
	return lineMaskRe.ReplaceAllString(s, "line N")
}

func c16Pos(c *core.Ctx, off, n int) {
	switch {
	case off == 0:
		c.Inc("pos:before-first-byte")
	case off >= n:
		c.Inc("pos:at-end")
	default:
		c.Inc("pos:inside-data")
	}
}

func tailSteps(t omni.Transcript, n int) []omni.Step {
	if len(t) > n {
		t = t[len(t)-n:]
	}
	return t.Short(n)
}
