package props

import (
	"encoding/json"
	"fmt"
	"runtime"
	"sort"
	"strconv"
	"strings"
	"sync"
	"sync/atomic"

	v21cf "github.com/jf-tech/omniparser/extensions/omniv21/customfuncs"
	"github.com/jf-tech/omniparser/idr"
	"github.com/jf-tech/omniparser/transformctx"

	"verif/harness/core"
	"verif/harness/gen"
	"verif/harness/omni"
)

// C20 — JavaScript calls are isolated from each other and map values faithfully.

func init() {
	core.Register(&core.Prop{
		ID:    "C20",
		Level: "exploration",
		Race:  true,
		Rule: "three monitors. (1) sequential histories (1-200 calls, recycled VMs) of javascript / javascript_with_context calls whose argument NAMES come from a " +
			"small pool (p0..p7, re-used across calls with different values and different subsets) and whose argument VALUES embed a unique call id: an " +
			"enumerating probe script must see exactly the current call's arguments (and _node only for the context variant); value-mapping scripts (numbers, " +
			"strings, booleans, arrays, objects) must marshal to the JSON the harness computes; NaN, +-Infinity, null, undefined, throw and syntax errors must " +
			"be errors; _node must equal the present content of a node that is mutated between calls the way readers do (children released, new children appended). " +
			"(2) the same histories on G goroutines sharing the VM pool and both LRU caches, under the race detector. (3) end to end: javascript_with_context on " +
			"the record, a descendant and an ancestor over >=20 records; each _node must equal the JSON rendering of the live node right after Read. " +
			"Also pairs of scripts that differ only in white space that matters (inside a string literal, ending a line comment). " +
			"distinct = digest of (script family, argument names, outcome); non-trivial = call on a VM that an instrumentation call has seen before (re-use).",
		Assumptions: []string{
			"scripts are closed-form IIFEs that declare no globals (the statement excludes scripts that assign globals); the VM-tagging instrumentation call deliberately sets one and is never used as an oracle",
			"_node's expected value is idr.JSONify2 of the live node computed by the harness at the moment of observation (C08 covers the rendering itself)",
		},
		Cases: func(t core.Tier) int {
			if t == core.Thorough {
				return 40000
			}
			return 900
		},
		Run:      runC20,
		Parallel: 8,
		Min: func(t core.Tier) map[string]int64 {
			return map[string]int64{"js_calls": 30000, "probe_calls": 8000, "value_map_calls": 8000, "error_calls": 3000, "node_calls": 3000, "vm_reuse_observed": 500,
				"arg_name_reused_with_other_value": 5000, "concurrent_histories": 200, "e2e_records": 1000, "e2e_ancestor_comparisons": 1000}
		},
	})
}

var c20Names = []string{"p0", "p1", "p2", "p3", "p4", "p5", "p6", "p7"}

const c20Probe = `(function(){var g=this,o=[];['p0','p1','p2','p3','p4','p5','p6','p7','_node'].forEach(function(k){if(k in g)o.push(k+'='+g[k])});return o.join(';')})()`

var c20VMCounter int64

type c20Hist struct {
	c        *core.Ctx
	r        *core.Rand
	callID   int64
	lastVals map[string]string // argument name -> last value rendering, to count re-use of names with other values
	// a mutable node whose children come and go
	node  *idr.Node
	model []([2]string) // ordered (name, text) children
	seq   int
	tag   string
	fail  bool
}

func (h *c20Hist) violate(sig, what string, d map[string]interface{}) {
	if h.fail {
		return
	}
	h.fail = true
	h.c.Violate("C20:"+sig, what, d)
}

// args generates named arguments; returns the flat arg list for the function and the expected probe rendering.
func (h *c20Hist) args() ([]interface{}, string, map[string]interface{}) {
	r := h.r
	h.callID++
	n := r.Range(0, 4)
	perm := r.Perm(len(c20Names))[:n]
	sort.Ints(perm)
	var flat []interface{}
	var parts []string
	vals := map[string]interface{}{}
	for _, pi := range perm {
		name := c20Names[pi]
		var v interface{}
		var rendered string
		switch r.Intn(4) {
		case 0:
			s := fmt.Sprintf("%s-c%d-%s", h.tag, h.callID, gen.RandString(r, 3, false))
			v, rendered = s, s
		case 1:
			i := int64(h.callID*10 + int64(r.Intn(10)))
			v, rendered = i, strconv.FormatInt(i, 10)
		case 2:
			f := float64(h.callID) + 0.25*float64(1+r.Intn(3))
			v, rendered = f, strconv.FormatFloat(f, 'f', -1, 64)
		default:
			b := r.Bool()
			v, rendered = b, strconv.FormatBool(b)
		}
		if prev, ok := h.lastVals[name]; ok && prev != rendered {
			h.c.Inc("arg_name_reused_with_other_value")
		}
		h.lastVals[name] = rendered
		flat = append(flat, name, v)
		parts = append(parts, name+"="+rendered)
		vals[name] = v
	}
	return flat, strings.Join(parts, ";"), vals
}

func (h *c20Hist) mutateNode() {
	r := h.r
	if h.node == nil {
		h.node = idr.CreateNode(idr.ElementNode, "grp")
	}
	// release some children (any position), then append new ones at the end — what the stream readers do to a record's ancestors
	for len(h.model) > 0 && r.Chance(1, 2) {
		k := r.Intn(len(h.model))
		i := 0
		for ch := h.node.FirstChild; ch != nil; ch = ch.NextSibling {
			if i == k {
				idr.RemoveAndReleaseTree(ch)
				break
			}
			i++
		}
		h.model = append(h.model[:k:k], h.model[k+1:]...)
	}
	for i := 0; i < r.Range(1, 2); i++ {
		h.seq++
		name := fmt.Sprintf("k%d", h.seq)
		text := fmt.Sprintf("%s-v%d", h.tag, h.seq)
		el := idr.CreateNode(idr.ElementNode, name)
		idr.AddChild(h.node, el)
		idr.AddChild(el, idr.CreateNode(idr.TextNode, text))
		h.model = append(h.model, [2]string{name, text})
	}
}

func (h *c20Hist) expectedNodeJSON() string {
	m := map[string]string{}
	for _, kv := range h.model {
		m[kv[0]] = kv[1]
	}
	b, _ := json.Marshal(m)
	return string(b)
}

func (h *c20Hist) step() {
	r := h.r
	c := h.c
	c.Inc("js_calls")
	c.Inc("evaluations")
	ctx := &transformctx.Ctx{}
	switch k := r.Intn(22); {
	case k >= 20: // two scripts that differ only in white space that matters (inside a string literal, ending a line comment)
		c.Inc("near_identical_script_pairs")
		w1, w2 := gen.RandString(r, 4, false), gen.RandString(r, 3, false)
		w1, w2 = strings.Map(c20Plain, w1)+"a", strings.Map(c20Plain, w2)+"b"
		type sc struct {
			script string
			want   interface{}
		}
		var a, b sc
		switch r.Intn(4) {
		case 0:
			a = sc{"'" + w1 + "' + ' ' + '" + w2 + "'", w1 + " " + w2}
			b = sc{"'" + w1 + "' + '   ' + '" + w2 + "'", w1 + "   " + w2}
		case 1:
			a = sc{"'" + w1 + " " + w2 + "  " + w1 + "'.split(' ').length", 4}
			b = sc{"'" + w1 + " " + w2 + "  " + w1 + "'.split('  ').length", 2}
		case 2:
			a = sc{"'" + w1 + "\t" + w2 + "'.length", len(w1) + len(w2) + 1} // a literal tab inside the literal
			b = sc{"'" + w1 + "  " + w2 + "'.length", len(w1) + len(w2) + 2}
		default:
			a = sc{"7 // " + w1 + "\n + 3", 10}
			b = sc{"7 // " + w1 + " + 3", 7}
		}
		pair := []sc{a, b}
		if r.Bool() {
			pair[0], pair[1] = pair[1], pair[0]
		}
		for _, p := range pair {
			got, err := v21cf.JavaScript(ctx, p.script)
			wb, _ := json.Marshal(p.want)
			gb, _ := json.Marshal(got)
			if err != nil || string(gb) != string(wb) {
				h.violate("value-mapping:near-identical-scripts", "a script gave the value of another script that differs from it only in white space (which matters: inside a string literal / ending a comment)",
					map[string]interface{}{"script": p.script, "expected_json": string(wb), "got_json": string(gb), "error": fmt.Sprint(err), "the_other_script": pair[0].script + " | " + pair[1].script})
				break
			}
		}
	case k < 6: // enumerating probe, without and with context
		flat, want, _ := h.args()
		c.Inc("probe_calls")
		if r.Bool() {
			got, err := v21cf.JavaScript(ctx, c20Probe, flat...)
			c.Distinct("probe", want[:min(len(want), 0)], fmt.Sprint(len(flat)))
			if err != nil || fmt.Sprint(got) != want {
				h.violate("probe-sees-other-globals", "a probe script sees globals other than the arguments of its own call",
					map[string]interface{}{"args": fmt.Sprint(flat), "expected": want, "got": fmt.Sprint(got), "error": fmt.Sprint(err)})
			}
		} else {
			h.mutateNode()
			nodeJSON := h.expectedNodeJSON()
			if want != "" {
				want += ";"
			}
			want += "_node=" + nodeJSON
			got, err := v21cf.JavaScriptWithContext(ctx, h.node, c20Probe, flat...)
			c.Inc("node_calls")
			if err != nil || fmt.Sprint(got) != want {
				sig := "probe-sees-other-globals"
				if strings.Contains(fmt.Sprint(got), "_node=") && !strings.HasSuffix(fmt.Sprint(got), "_node="+nodeJSON) {
					sig = "stale-or-wrong-_node"
				}
				h.violate(sig, "a context probe does not see exactly its own arguments and the present content of its node",
					map[string]interface{}{"args": fmt.Sprint(flat), "expected": want, "got": fmt.Sprint(got), "error": fmt.Sprint(err)})
			}
		}
	case k < 8: // a plain javascript call right after a context call must not see _node
		h.mutateNode()
		v21cf.JavaScriptWithContext(ctx, h.node, `_node.length`)
		got, err := v21cf.JavaScript(ctx, `typeof _node`)
		c.Inc("probe_calls")
		if err != nil || fmt.Sprint(got) != "undefined" {
			h.violate("_node-leaks-into-next-call", "_node of a context call is visible to the next plain call", map[string]interface{}{"got": fmt.Sprint(got), "error": fmt.Sprint(err)})
		}
	case k < 14: // value mapping
		flat, _, vals := h.args()
		c.Inc("value_map_calls")
		names := make([]string, 0, len(vals))
		for n := range vals {
			names = append(names, n)
		}
		sort.Strings(names)
		var script string
		var want interface{}
		switch r.Intn(8) {
		case 6:
			// results whose conversion to a Go value goes back into the VM (sparse array -> prototype lookup, accessor property -> runs the getter)
			script, want = `(function(){return [,'x',,2]})()`, []interface{}{nil, "x", nil, 2}
			c.Inc("value_map_export_touches_vm")
		case 7:
			script, want = `(function(){var o={plain:1}; Object.defineProperty(o,'viaGetter',{enumerable:true,get:function(){return [1,'g'].concat([true])}}); return o})()`,
				map[string]interface{}{"plain": 1, "viaGetter": []interface{}{1, "g", true}}
			c.Inc("value_map_export_touches_vm")
		case 0:
			script, want = `(function(){return 6*7})()`, 42
		case 1:
			a, b := 0.1, 0.2
			script, want = `(function(){return 0.1+0.2})()`, a+b
		case 2:
			script, want = `(function(){return 'a'+'é'+String.fromCharCode(0x4e2d)})()`, "aé中"
		case 3:
			script, want = `(function(){return 2>1})()`, true
		case 4:
			// array of own arguments
			var els []string
			var w []interface{}
			for _, n := range names {
				els = append(els, n)
				w = append(w, vals[n])
			}
			els = append(els, `'end'`, `1.5`, `false`, `[1,2]`, `{}`)
			script = `(function(){return [` + strings.Join(els, ",") + `]})()`
			w = append(w, "end", 1.5, false, []interface{}{1, 2}, map[string]interface{}{})
			want = w
		default:
			var fields []string
			w := map[string]interface{}{}
			for _, n := range names {
				fields = append(fields, n+"_k:"+n)
				w[n+"_k"] = vals[n]
			}
			fields = append(fields, "nested:{a:[true,'x'],b:-3}")
			w["nested"] = map[string]interface{}{"a": []interface{}{true, "x"}, "b": -3}
			script = `(function(){return {` + strings.Join(fields, ",") + `}})()`
			want = w
		}
		got, err := v21cf.JavaScript(ctx, script, flat...)
		wb, _ := json.Marshal(want)
		gb, _ := json.Marshal(got)
		c.Distinct("map", script[:min(len(script), 40)], fmt.Sprint(len(flat)))
		if err != nil || string(gb) != string(wb) {
			h.violate("value-mapping", "a JavaScript value does not map to the corresponding JSON value",
				map[string]interface{}{"script": script, "args": fmt.Sprint(flat), "expected_json": string(wb), "got_json": string(gb), "error": fmt.Sprint(err)})
		}
	case k < 17: // error producers
		c.Inc("error_calls")
		flat, _, _ := h.args()
		script := r.Pick(`0/0`, `1/0`, `-1/0`, `null`, `undefined`, `(function(){throw new Error('boom')})()`, `(function(){return void 0})()`, `this is not javascript`,
			`(function(){return Math.sqrt(-1)})()`, `(function(){return undefinedVariable.x})()`, `parseInt('zz')`, `-Infinity`)
		got, err := v21cf.JavaScript(ctx, script, flat...)
		c.Distinct("err", script)
		if err == nil {
			h.violate("error-value-returned:"+script, "NaN/Infinity/null/undefined/exception produced a value instead of an error", map[string]interface{}{"script": script, "got": fmt.Sprint(got)})
		}
	case k < 19: // odd number of arguments must be an error, never a panic
		_, err := v21cf.JavaScript(ctx, `1`, "p0")
		if err == nil {
			h.violate("odd-args-accepted", "an odd number of name/value arguments was accepted", nil)
		}
	default: // instrumentation: tag the VM (sets a global on purpose; not an oracle)
		id := atomic.AddInt64(&c20VMCounter, 1)
		got, err := v21cf.JavaScript(ctx, fmt.Sprintf(`(function(){var g=this; if(!g.__vm){g.__vm=%d} return g.__vm})()`, id))
		if err == nil && fmt.Sprint(got) != fmt.Sprint(id) {
			c.Inc("vm_reuse_observed")
		} else {
			c.Inc("vm_first_seen")
		}
	}
}

// c20Plain keeps letters and digits only (script text is built from it).
func c20Plain(x rune) rune {
	if (x >= 'a' && x <= 'z') || (x >= 'A' && x <= 'Z') || (x >= '0' && x <= '9') {
		return x
	}
	return -1
}

func min(a, b int) int {
	if a < b {
		return a
	}
	return b
}

func (h *c20Hist) done() {
	if h.node != nil {
		idr.RemoveAndReleaseTree(h.node)
		h.node = nil
	}
}

func c20Sequential(c *core.Ctx) {
	h := &c20Hist{c: c, r: c.R, lastVals: map[string]string{}, tag: fmt.Sprintf("h%d", c.Idx)}
	n := c.R.Range(1, 200)
	for i := 0; i < n && !h.fail; i++ {
		h.step()
	}
	h.done()
	c.Inc("sequential_histories")
	if c.Idx < 6 {
		c.Sample(map[string]interface{}{"monitor": "sequential", "calls": n, "probe_script": c20Probe})
	}
}

func c20Concurrent(c *core.Ctx) {
	r := c.R
	G := []int{2, 4, 16, 64}[r.Intn(4)]
	procs := []int{1, 2, 4, 16}[r.Intn(4)]
	old := runtime.GOMAXPROCS(procs)
	defer runtime.GOMAXPROCS(old)
	var wg sync.WaitGroup
	subs := make([]*core.Ctx, G)
	for g := 0; g < G; g++ {
		wg.Add(1)
		gr := r.Fork()
		go func(g int) {
			defer wg.Done()
			sc := core.ScratchCtx(c)
			subs[g] = sc
			h := &c20Hist{c: sc, r: gr, lastVals: map[string]string{}, tag: fmt.Sprintf("h%d.g%d", c.Idx, g)}
			n := 1200 / G
			if n < 20 {
				n = 20
			}
			for i := 0; i < n && !h.fail; i++ {
				h.step()
				if i%8 == 0 {
					runtime.Gosched()
				}
			}
			h.done()
			sc.Inc("concurrent_histories")
		}(g)
	}
	wg.Wait()
	for _, sc := range subs {
		core.MergeScratch(c, sc)
	}
	// a burst of context calls: every goroutine asks, back to back, for its own (unchanging, distinct) node and must see that node
	{
		B := G
		if B > 16 {
			B = 16
		}
		bad := make([]string, B)
		var bw sync.WaitGroup
		start := make(chan struct{})
		for g := 0; g < B; g++ {
			bw.Add(1)
			go func(g int) {
				defer bw.Done()
				n := idr.CreateNode(idr.ElementNode, "rec")
				ch := idr.CreateNode(idr.ElementNode, "owner")
				idr.AddChild(n, ch)
				idr.AddChild(ch, idr.CreateNode(idr.TextNode, fmt.Sprintf("burst-%d-%d", c.Idx, g)))
				want := fmt.Sprintf("burst-%d-%d", c.Idx, g)
				<-start
				for i := 0; i < 100 && bad[g] == ""; i++ {
					got, err := v21cf.JavaScriptWithContext(&transformctx.Ctx{}, n, `JSON.parse(_node).owner`)
					if err != nil || fmt.Sprint(got) != want {
						bad[g] = fmt.Sprintf("call %d: got %v (error %v), the node says %s", i, got, err, want)
					}
				}
				idr.RemoveAndReleaseTree(n)
			}(g)
		}
		close(start)
		bw.Wait()
		c.Count("burst_context_calls", int64(B*100))
		c.Count("js_calls", int64(B*100))
		c.Count("evaluations", int64(B*100))
		for g := range bad {
			if bad[g] != "" {
				c.Violate("C20:concurrent:_node-of-another-call", "a context call running next to others on other nodes saw another call's _node", map[string]interface{}{"goroutines": B, "gomaxprocs": procs, "what": bad[g]})
				break
			}
		}
	}
	c.Inc(fmt.Sprintf("concurrent_runs:G=%d,procs=%d", G, procs))
	if c.Idx < 12 {
		c.Sample(map[string]interface{}{"monitor": "concurrent", "goroutines": G, "gomaxprocs": procs})
	}
}

func c20EndToEnd(c *core.Ctx) {
	r := c.R
	format := r.Pick("xml", "json")
	nw := gen.GenNested(r, format, r.Range(2, 5), 8, r.Bool())
	up := ".."
	if format == "json" {
		up = "../.."
	}
	doc := map[string]interface{}{
		"parser_settings": map[string]interface{}{"version": "omni.2.1", "file_format_type": format},
		"transform_declarations": map[string]interface{}{"FINAL_OUTPUT": map[string]interface{}{"xpath": nw.Target, "object": map[string]interface{}{
			"rec":  map[string]interface{}{"custom_func": map[string]interface{}{"name": "javascript_with_context", "args": []interface{}{map[string]interface{}{"const": "_node"}}}},
			"desc": map[string]interface{}{"xpath": "items", "custom_func": map[string]interface{}{"name": "javascript_with_context", "args": []interface{}{map[string]interface{}{"const": "_node"}}}},
			"anc":  map[string]interface{}{"xpath": up, "custom_func": map[string]interface{}{"name": "javascript_with_context", "args": []interface{}{map[string]interface{}{"const": "_node"}}}},
			"id":   map[string]interface{}{"custom_func": map[string]interface{}{"name": "javascript", "args": []interface{}{map[string]interface{}{"const": "'id:' + x"}, map[string]interface{}{"const": "x"}, map[string]interface{}{"xpath": "id"}}}},
		}}},
	}
	schema, _ := json.Marshal(doc)
	s, err := omni.NewSchema(schema)
	if err != nil {
		c.Inconclusive("C20 e2e schema rejected: " + err.Error())
		return
	}
	tr, err := s.NewTransform("in", strings.NewReader(string(nw.Input)), &transformctx.Ctx{})
	if err != nil {
		c.Inconclusive("NewTransform failed: " + err.Error())
		return
	}
	for i := 0; i < nw.NRecs+2; i++ {
		b, err := tr.Read()
		if err != nil {
			break
		}
		rr, rerr := tr.RawRecord()
		if rerr != nil {
			break
		}
		n := rr.Raw().(*idr.Node)
		anc := n.Parent
		if format == "json" && anc != nil {
			anc = anc.Parent
		}
		var out struct {
			Rec, Desc, Anc, ID string
		}
		json.Unmarshal(b, &out)
		c.Inc("e2e_records")
		c.Inc("evaluations")
		detail := func(field, want, got string) map[string]interface{} {
			return map[string]interface{}{"format": format, "schema": string(schema), "input": core.Trunc(string(nw.Input), 3000), "record_index": i, "field": field, "expected": core.Trunc(want, 1500), "got": core.Trunc(got, 1500)}
		}
		if want := idr.JSONify2(n); out.Rec != want {
			c.Violate("C20:e2e:_node-of-record", "_node does not reflect the record as it is now", detail("rec", want, out.Rec))
			return
		}
		if anc != nil {
			c.Inc("e2e_ancestor_comparisons")
			if want := idr.JSONify2(anc); out.Anc != want {
				c.Violate("C20:e2e:_node-of-ancestor", "_node of an ancestor does not reflect its present content", detail("anc", want, out.Anc))
				return
			}
		}
		var items *idr.Node
		for ch := n.FirstChild; ch != nil; ch = ch.NextSibling {
			if ch.Type == idr.ElementNode && ch.Data == "items" {
				items = ch
			}
		}
		if items != nil {
			if want := idr.JSONify2(items); out.Desc != want {
				c.Violate("C20:e2e:_node-of-descendant", "_node of a descendant does not reflect its content", detail("desc", want, out.Desc))
				return
			}
		}
	}
	c.Distinct("e2e", string(nw.Input))
}

func runC20(c *core.Ctx) {
	switch c.Idx % 6 {
	case 0, 1, 2:
		c20Sequential(c)
	case 3, 4:
		c20Concurrent(c)
	default:
		c20EndToEnd(c)
	}
}
