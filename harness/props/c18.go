package props

import (
	"bytes"
	"fmt"
	"github.com/jf-tech/omniparser"
	"github.com/jf-tech/omniparser/transformctx"
	"strings"

	"verif/harness/core"
	"verif/harness/gen"
	"verif/harness/mon"
	"verif/harness/omni"
)

// C18 — declared input encodings and byte-order marks are handled transparently.

func init() {
	core.Register(&core.Prop{
		ID:    "C18",
		Level: "exploration",
		Rule: "each case = one kit input of one of the seven formats whose free-text slots are replaced by raw payload bytes (every one of the 256 byte " +
			"values singly, pairs around structural bytes, random byte strings incl. delimiters, quotes, CR/LF, the five bytes undefined in windows-1252 " +
			"and EF BB BF). For X in {iso-8859-1, windows-1252}: transcript(bytes, encoding=X) must equal transcript(harness_utf8_X(bytes), encoding=utf-8) " +
			"and transcript with encoding omitted. BOM: transcript(EF BB BF + input) must equal transcript(input), also under one-byte delivery. " +
			"A sixth of the inputs are bulk (150-600 records): dense in bytes with 2- and 3-byte UTF-8 forms, or beginning with several buffers of pure ASCII. " +
			"distinct = digest(input bytes, encoding); non-trivial = payload contains a byte >= 0x80.",
		Assumptions: []string{
			"the harness's own conversion tables (Latin-1 identity; hand-written WHATWG windows-1252 table for 0x80-0x9F) define 'the standard code page'",
			"both sides of each comparison go through the same format reader, so even error texts must agree",
		},
		Cases: func(t core.Tier) int {
			if t == core.Thorough {
				return 70000
			}
			return 1400
		},
		Run: runC18,
		Min: func(t core.Tier) map[string]int64 {
			return map[string]int64{"comparisons": 2500, "bom_cases": 300, "records_compared": 5000}
		},
		Finish: func(a *core.Agg) {
			// all 256 byte values must have been covered for every format and both encodings
			for _, f := range gen.Formats {
				n := int64(0)
				for b := 0; b < 256; b++ {
					if a.Counters[fmt.Sprintf("bv:%s:%d", f, b)] > 0 {
						n++
					}
					delete(a.Counters, fmt.Sprintf("bv:%s:%d", f, b))
				}
				a.Counters["byte_values_covered:"+f] = n
				if a.Counters["byte_values_covered:"+f] < 256 {
					a.AddInconclusive(fmt.Sprintf("only %d of 256 byte values were used as payload for format %s", a.Counters["byte_values_covered:"+f], f))
				}
			}
		},
	})
}

// WHATWG windows-1252, bytes 0x80..0x9F.
var cp1252High = [32]rune{0x20AC, 0x0081, 0x201A, 0x0192, 0x201E, 0x2026, 0x2020, 0x2021, 0x02C6, 0x2030, 0x0160, 0x2039, 0x0152, 0x008D, 0x017D, 0x008F,
	0x0090, 0x2018, 0x2019, 0x201C, 0x201D, 0x2022, 0x2013, 0x2014, 0x02DC, 0x2122, 0x0161, 0x203A, 0x0153, 0x009D, 0x017E, 0x0178}

// toUTF8 is the harness's own conversion. The five bytes windows-1252 leaves undefined (81 8D 8F 90 9D) have two customary
// treatments: the WHATWG index maps them to the C1 controls of the same value, other decoders replace them with U+FFFD.
// The statement does not pick one, so the caller accepts either (undefAsC1 selects which one this call produces).
func toUTF8(b []byte, enc string, undefAsC1 bool) []byte {
	var sb strings.Builder
	for _, c := range b {
		switch {
		case c < 0x80:
			sb.WriteByte(c)
		case enc == "windows-1252" && c < 0xA0:
			if !undefAsC1 && (c == 0x81 || c == 0x8D || c == 0x8F || c == 0x90 || c == 0x9D) {
				sb.WriteRune(0xFFFD)
				continue
			}
			sb.WriteRune(cp1252High[c-0x80])
		default:
			sb.WriteRune(rune(c))
		}
	}
	return []byte(sb.String())
}

func runC18(c *core.Ctx) {
	r := c.R
	format := gen.Formats[c.Idx%len(gen.Formats)]
	slot := c.Idx / len(gen.Formats) // cycles through byte values deterministically: every format sees every byte
	k := gen.NewKit(r, format)
	k.Rows, k.HF = 1, false // payloads may contain line breaks; keep the record shape simple
	n := r.Range(2, 8)
	bulk := r.Chance(1, 6)
	asciiFirst := false
	if bulk {
		// inputs several read buffers long, dense in bytes whose UTF-8 form is two or three bytes long: decoded sequences straddle
		// whatever buffer boundaries the decoder and its consumers have
		n = r.Range(150, 500)
		c.Inc("bulk_inputs")
		if asciiFirst = r.Chance(1, 3); asciiFirst {
			n = r.Range(300, 600)
			c.Inc("bulk_inputs_with_ascii_only_beginning")
		}
	}
	var recs []gen.Rec
	var payloads [][]byte
	for i := 0; i < n; i++ {
		rec := k.GenRec(r, i)
		for j := range rec.F {
			rec.F[j] = fmt.Sprintf("@@%d@@", len(payloads))
			var p []byte
			switch {
			case i == 0 && j == 0:
				// the deterministic sweep: two byte values per case
				p = []byte{byte(slot * 2 % 256), 'a', byte((slot*2 + 1) % 256)}
			case bulk && asciiFirst && i < n*7/10:
				// several buffers' worth of pure ASCII before the first byte that needs decoding
				p = []byte("a" + strings.Repeat("x", r.Range(0, 5)))
			case bulk:
				ln := r.Range(1, 6)
				for x := 0; x < ln; x++ {
					switch r.Intn(3) {
					case 0:
						p = append(p, byte(0x80+r.Intn(0x20))) // windows-1252: mostly three bytes of UTF-8
					case 1:
						p = append(p, byte(0xA0+r.Intn(0x60))) // two bytes
					default:
						p = append(p, byte('a'+r.Intn(26)))
					}
				}
			case r.Chance(1, 3):
				st := []byte(",;|\"'*~?:<>&\r\n\t {}[]\\")
				p = []byte{byte(r.Intn(256)), st[r.Intn(len(st))], byte(r.Intn(256))}
			case r.Chance(1, 3):
				p = []byte{[]byte{0x81, 0x8D, 0x8F, 0x90, 0x9D}[r.Intn(5)], byte(0x80 + r.Intn(0x20))}
			default:
				ln := r.Range(0, 6)
				for x := 0; x < ln; x++ {
					if r.Bool() {
						p = append(p, byte(0x80+r.Intn(0x80)))
					} else {
						p = append(p, byte(r.Intn(256)))
					}
				}
			}
			payloads = append(payloads, p)
		}
		recs = append(recs, rec)
	}
	if k.Widths != nil {
		for i := 2; i < len(k.Widths); i++ {
			if k.Widths[i] < 7 {
				k.Widths[i] = 7 // room for the placeholder
			}
		}
	}
	tmpl := k.Render(r, recs, gen.RenderOpts{CRLF: r.Chance(1, 4)})
	input := tmpl
	for i, p := range payloads {
		input = bytes.Replace(input, []byte(fmt.Sprintf("@@%d@@", i)), p, 1)
	}
	high := false
	for _, p := range payloads {
		for _, b := range p {
			c.Inc(fmt.Sprintf("bv:%s:%d", format, b))
			if b >= 0x80 {
				high = true
			}
		}
	}
	if r.Chance(1, 6) {
		input = append([]byte{0xEF, 0xBB, 0xBF}, input...) // EF BB BF at the start under a single-byte encoding is just three characters
		c.Inc("efbbbf_under_single_byte_encoding")
	}
	mode := r.Pick(gen.ModePass, gen.ModeCopy, gen.ModeFailing)
	for _, enc := range []string{"iso-8859-1", "windows-1252"} {
		k.Encoding = enc
		sx, err := omni.NewSchema(k.Schema(mode))
		if err != nil {
			c.Inconclusive("kit schema rejected: " + err.Error())
			return
		}
		k.Encoding = "utf-8"
		su, err := omni.NewSchema(k.Schema(mode))
		if err != nil {
			c.Inconclusive("kit schema rejected: " + err.Error())
			return
		}
		k.Encoding = ""
		sd, _ := omni.NewSchema(k.Schema(mode))
		conv := toUTF8(input, enc, true)
		convAlt := toUTF8(input, enc, false)
		var rx interface{ Read([]byte) (int, error) } = bytes.NewReader(input)
		if r.Chance(1, 4) {
			rx = mon.NewSchedule("small", input, r.Fork(), nil)
		}
		tx := omni.RunAll(sx, rx, omni.RunOpts{MaxReads: 2000, ExtraReads: 1})
		tx = maskLines(tx, format)
		tu := maskLines(omni.RunAll(su, bytes.NewReader(conv), omni.RunOpts{MaxReads: 2000, ExtraReads: 1}), format)
		td := maskLines(omni.RunAll(sd, bytes.NewReader(conv), omni.RunOpts{MaxReads: 2000, ExtraReads: 1}), format)
		if tx.String() != tu.String() && !bytes.Equal(conv, convAlt) {
			// the input contains undefined windows-1252 bytes: the other customary treatment is equally acceptable
			if ta := maskLines(omni.RunAll(su, bytes.NewReader(convAlt), omni.RunOpts{MaxReads: 2000, ExtraReads: 1}), format); ta.String() == tx.String() {
				c.Inc("undefined_cp1252_bytes_replaced_with_fffd")
				tu = ta
				td = maskLines(omni.RunAll(sd, bytes.NewReader(convAlt), omni.RunOpts{MaxReads: 2000, ExtraReads: 1}), format)
			}
		}
		c.Inc("comparisons")
		c.Inc("evaluations")
		c.Inc("comparisons:" + enc)
		c.Count("records_compared", int64(len(tu)))
		if high {
			c.Distinct(string(input), enc)
		}
		if tx.String() != tu.String() {
			i := firstDiff(tx, tu)
			c.Violate("C18:"+enc+":"+format+":"+c09DiffClass(tx, tu, i), "results under encoding "+enc+" differ from results on the input converted to UTF-8 with the standard code page",
				map[string]interface{}{"format": format, "encoding": enc, "schema": string(k.Schema(mode)), "input_hex": fmt.Sprintf("%x", input), "input": core.Trunc(string(input), 2000),
					"first_difference_at_step": i, "declared_encoding": stepAt(tx, i), "converted_utf8": stepAt(tu, i)})
		}
		if bulk && tx.String() == tu.String() {
			// two transforms over this input, alive at the same time and advanced in turns: each must still give what it gives alone
			// (decoders are per transform)
			c.Inc("interleaved_pairs_under_a_declared_encoding")
			var trs [2]omniparser.Transform
			var got [2]omni.Transcript
			ok := true
			for i := range trs {
				tr, err := sx.NewTransform("in", bytes.NewReader(input), &transformctx.Ctx{})
				if err != nil {
					ok = false
					break
				}
				trs[i] = tr
			}
			for step := 0; ok && step < 2100; step++ {
				live := false
				for i := range trs {
					if n := len(got[i]); n > 0 && (got[i][n-1].Class == omni.EOF || got[i][n-1].Class == omni.FATAL) {
						continue
					}
					live = true
					got[i] = append(got[i], omni.ReadStep(trs[i], true))
				}
				if !live {
					break
				}
			}
			solo := maskLines(omni.RunAll(sx, bytes.NewReader(input), omni.RunOpts{MaxReads: 2000}), format)
			for i := range got {
				if g := maskLines(got[i], format); ok && g.String() != solo.String() {
					d := firstDiff(g, solo)
					c.Violate("C18:"+enc+":"+format+":interleaved", "a transform under encoding "+enc+" gives different results when another one over the same input is alive and advanced in turns with it",
						map[string]interface{}{"format": format, "encoding": enc, "schema": string(k.Schema(mode)), "input": core.Trunc(string(input), 2000),
							"first_difference_at_step": d, "interleaved": stepAt(g, d), "alone": stepAt(solo, d)})
					break
				}
			}
		}
		if td.String() != tu.String() {
			c.Violate("C18:default-encoding:"+format, "omitting parser_settings.encoding differs from declaring utf-8", map[string]interface{}{"format": format, "input_hex": fmt.Sprintf("%x", conv)})
		}
	}
	// BOM clause (utf-8): take the cp1252-converted bytes as a valid UTF-8 input
	k.Encoding = []string{"", "utf-8"}[r.Intn(2)]
	s, err := omni.NewSchema(k.Schema(mode))
	if err != nil {
		c.Inconclusive("kit schema rejected: " + err.Error())
		return
	}
	plain := toUTF8(bytes.TrimPrefix(input, []byte{0xEF, 0xBB, 0xBF}), "windows-1252", true)
	withBOM := append([]byte{0xEF, 0xBB, 0xBF}, plain...)
	t0 := omni.RunAll(s, bytes.NewReader(plain), omni.RunOpts{MaxReads: 2000, ExtraReads: 1})
	var rb interface{ Read([]byte) (int, error) } = bytes.NewReader(withBOM)
	sched := "whole"
	if r.Bool() {
		sched = r.Pick("one-byte", "small", "zeros")
		rb = mon.NewSchedule(sched, withBOM, r.Fork(), nil)
	}
	t1 := omni.RunAll(s, rb, omni.RunOpts{MaxReads: 2000, ExtraReads: 1})
	c.Inc("bom_cases")
	c.Inc("bom_delivery:" + sched)
	if strings.Contains(t1.String(), "\ufeff") && !strings.Contains(t0.String(), "\ufeff") {
		c.Violate("C18:bom-leaked:"+format, "a leading UTF-8 byte-order mark shows up in a delivered value or name", map[string]interface{}{"format": format, "input": core.Trunc(string(withBOM), 1500), "transcript": t1.Short(3)})
	} else if maskLines(t1, format).String() != maskLines(t0, format).String() {
		i := firstDiff(t1, t0)
		c.Violate("C18:bom-changes-results:"+format, "results with a leading BOM differ from results without it",
			map[string]interface{}{"format": format, "delivery": sched, "schema": string(k.Schema(mode)), "input": core.Trunc(string(plain), 2000), "first_difference_at_step": i, "with_bom": stepAt(t1, i), "without_bom": stepAt(t0, i)})
	}
	if c.Idx < 14 {
		c.Sample(map[string]interface{}{"format": format, "input_hex": core.Trunc(fmt.Sprintf("%x", input), 240), "classes": core.Trunc(t0.Classes(), 80)})
	}
}

func firstDiff(a, b omni.Transcript) int {
	i := 0
	for i < len(a) && i < len(b) && a[i] == b[i] {
		i++
	}
	return i
}

func stepAt(t omni.Transcript, i int) interface{} {
	if i < len(t) {
		return t.Short(i + 1)[i]
	}
	return nil
}
