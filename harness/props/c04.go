package props

import (
	"bytes"
	"encoding/json"
	"encoding/xml"
	"fmt"
	"io"
	"sort"
	"strconv"
	"strings"

	"github.com/antchfx/xmlquery"
	"github.com/antchfx/xpath"
	"github.com/jf-tech/omniparser/idr"

	"verif/harness/core"
	"verif/harness/gen"
	"verif/harness/omni"
	"verif/harness/ref"
)

// C04 — streaming target selection equals whole-document selection (XML, JSON).

func init() {
	core.Register(&core.Prop{
		ID:    "C04",
		Level: "exploration",
		Rule: "each case = one generated XML or JSON document (depth <=6, small name alphabet so names repeat at several depths, nested candidates, several " +
			"candidates per parent, mixed content, attributes, namespaces; JSON scalars/arrays/objects at any level) x 6 target xpaths of the stated class " +
			"(absolute, //, wildcards, zero/one/two final-step predicates on child values, attributes, text, name tests). Expected list, computed on a mirror " +
			"DOM built from the standard decoder: C = nodes selected with every trailing predicate of the last step removed; O = outermost members of C; " +
			"expected = members of O selected by the full xpath, in document order, each with its full subtree. Compared with what idr's stream readers " +
			"deliver (with and without Release between Reads) and, end-to-end, with Transform.Read under a copy schema. " +
			"JSON property names may look like paths of other names (\"b/c\" next to the nesting b -> c); predicate literals may contain the other quote character or brackets. " +
			"distinct = digest(document, xpath); non-trivial = |C| >= 2 and a candidate was nested or rejected.",
		Assumptions: []string{
			"antchfx/xpath over a harness-built DOM (xmlquery nodes) evaluates the whole-document selection",
			"positional predicates, predicates on non-final steps and parent/sibling axes are outside the stated class and never generated",
		},
		Cases: func(t core.Tier) int {
			if t == core.Thorough {
				return 120000
			}
			return 2400
		},
		Run: runC04,
		Min: func(t core.Tier) map[string]int64 {
			return map[string]int64{"pairs": 6000, "pairs:xml": 2500, "pairs:json": 2500, "delivered_nodes_compared": 3000, "pairs_with_nested_candidates": 300,
				"pairs_with_rejected_candidates": 500, "pairs_with_two_predicates": 300, "end_to_end_pairs": 500}
		},
	})
}

// ---- mirror DOMs as xmlquery trees ----

func xqAppend(parent, n *xmlquery.Node) {
	n.Parent = parent
	if parent.FirstChild == nil {
		parent.FirstChild = n
	} else {
		parent.LastChild.NextSibling = n
		n.PrevSibling = parent.LastChild
	}
	parent.LastChild = n
}

func xqFromMirror(m *ref.MNode, parent *xmlquery.Node) *xmlquery.Node {
	var n *xmlquery.Node
	switch m.Kind {
	case "doc":
		n = &xmlquery.Node{Type: xmlquery.DocumentNode}
	case "elem":
		n = &xmlquery.Node{Type: xmlquery.ElementNode, Data: m.Local, Prefix: m.Prefix, NamespaceURI: m.Space}
		for _, a := range m.Attrs {
			n.Attr = append(n.Attr, xml.Attr{Name: xml.Name{Space: a.Prefix, Local: a.Local}, Value: a.Value})
		}
	case "text":
		n = &xmlquery.Node{Type: xmlquery.TextNode, Data: m.Value}
	}
	if parent != nil {
		xqAppend(parent, n)
	}
	for _, ch := range m.Children {
		xqFromMirror(ch, n)
	}
	return n
}

// xqFromJSON builds the whole-document DOM of a JSON text from encoding/json tokens, in the shape the docs describe for JSON
// (object properties are elements named by the key, array members are unnamed elements, scalars are text).
func xqFromJSON(doc []byte) (*xmlquery.Node, error) {
	dec := json.NewDecoder(bytes.NewReader(doc))
	root := &xmlquery.Node{Type: xmlquery.DocumentNode}
	var parse func(holder *xmlquery.Node) error
	parse = func(holder *xmlquery.Node) error {
		tok, err := dec.Token()
		if err != nil {
			return err
		}
		switch v := tok.(type) {
		case json.Delim:
			switch v {
			case '{':
				for dec.More() {
					kt, err := dec.Token()
					if err != nil {
						return err
					}
					el := &xmlquery.Node{Type: xmlquery.ElementNode, Data: kt.(string)}
					xqAppend(holder, el)
					if err := parse(el); err != nil {
						return err
					}
				}
				_, err = dec.Token()
				return err
			case '[':
				for dec.More() {
					el := &xmlquery.Node{Type: xmlquery.ElementNode, Data: ""}
					xqAppend(holder, el)
					if err := parse(el); err != nil {
						return err
					}
				}
				_, err = dec.Token()
				return err
			}
		case string:
			xqAppend(holder, &xmlquery.Node{Type: xmlquery.TextNode, Data: v})
		case float64:
			xqAppend(holder, &xmlquery.Node{Type: xmlquery.TextNode, Data: strconv.FormatFloat(v, 'f', -1, 64)})
		case bool:
			xqAppend(holder, &xmlquery.Node{Type: xmlquery.TextNode, Data: strconv.FormatBool(v)})
		case nil:
			xqAppend(holder, &xmlquery.Node{Type: xmlquery.TextNode, Data: ""})
		}
		return nil
	}
	if err := parse(root); err != nil {
		return nil, err
	}
	return root, nil
}

func xqCanon(n *xmlquery.Node, sb *strings.Builder) {
	q := strconv.Quote
	switch n.Type {
	case xmlquery.TextNode:
		sb.WriteString("T(" + q(n.Data) + ")")
		return
	case xmlquery.ElementNode:
		sb.WriteString("E(" + q(n.Prefix) + "," + q(n.NamespaceURI) + "," + q(n.Data) + ")")
	default:
		sb.WriteString("DOC")
	}
	sb.WriteString("[")
	for _, a := range n.Attr {
		space := ""
		sb.WriteString("A(" + q(a.Name.Space) + "," + q(space) + "," + q(a.Name.Local) + "=" + q(a.Value) + ")")
	}
	for ch := n.FirstChild; ch != nil; ch = ch.NextSibling {
		xqCanon(ch, sb)
	}
	sb.WriteString("]")
}

// idrCanon renders an idr subtree in the shape of xqCanon (attribute URIs are not compared here: C08 covers them).
func idrCanon(n *idr.Node, sb *strings.Builder) {
	q := strconv.Quote
	switch n.Type {
	case idr.TextNode:
		sb.WriteString("T(" + q(n.Data) + ")")
		return
	case idr.AttributeNode:
		fs, _ := n.FormatSpecific.(idr.XMLSpecific)
		sb.WriteString("A(" + q(fs.NamespacePrefix) + "," + q("") + "," + q(n.Data) + "=" + q(n.InnerText()) + ")")
		return
	case idr.ElementNode:
		fs, _ := n.FormatSpecific.(idr.XMLSpecific)
		sb.WriteString("E(" + q(fs.NamespacePrefix) + "," + q(fs.NamespaceURI) + "," + q(n.Data) + ")")
	default:
		sb.WriteString("DOC")
	}
	sb.WriteString("[")
	for ch := n.FirstChild; ch != nil; ch = ch.NextSibling {
		idrCanon(ch, sb)
	}
	sb.WriteString("]")
}

func contains(anc, n *xmlquery.Node) bool {
	for p := n.Parent; p != nil; p = p.Parent {
		if p == anc {
			return true
		}
	}
	return false
}

func selectAll(root *xmlquery.Node, expr string) ([]*xmlquery.Node, error) {
	e, err := xpath.Compile(expr)
	if err != nil {
		return nil, err
	}
	var out []*xmlquery.Node
	it := e.Select(refNav{xmlquery.CreateXPathNavigator(root)})
	for it.MoveNext() {
		nav := it.Current().(refNav)
		if nav.NodeType() == xpath.AttributeNode {
			continue
		}
		out = append(out, nav.Current())
	}
	return out, nil
}

type c04XPath struct {
	base  string   // path without final-step predicates
	preds []string // trailing predicates of the last step
}

func (x c04XPath) full() string {
	s := x.base
	for _, p := range x.preds {
		s += "[" + p + "]"
	}
	return s
}

func genC04XPath(r *core.Rand, names []string, rootName string, isJSON bool) c04XPath {
	name := func() string {
		if r.Chance(1, 6) {
			return "*"
		}
		return names[r.Intn(len(names))]
	}
	var x c04XPath
	switch r.Intn(6) {
	case 0:
		x.base = "//" + name()
	case 1:
		x.base = "/" + rootName + "/" + name()
	case 2:
		x.base = "/" + rootName + "/" + name() + "/" + name()
	case 3:
		x.base = "/*/" + name()
	case 4:
		x.base = "//" + name() + "/" + name()
	default:
		x.base = "/" + rootName + "//" + name()
	}
	lit := func() string {
		if r.Chance(1, 4) {
			// literals that contain the other quote character or brackets (the reader strips the last predicate textually)
			return r.Pick(`"it's"`, `'q"q'`, `']'`, `"["`, `"']"`, `'["'`, `"x]"`)
		}
		if r.Chance(1, 4) {
			return `"` + r.Pick("x", "y", "1", "2", "10", "") + `"`
		}
		return "'" + r.Pick("x", "y", "1", "2", "10", "") + "'"
	}
	pred := func() string {
		switch r.Intn(10) {
		case 0:
			return name() + "=" + lit()
		case 1:
			return "string-length(" + name() + ")>" + strconv.Itoa(r.Range(0, 2))
		case 2:
			return "not(" + name() + ")"
		case 3:
			return "count(" + name() + ")>" + strconv.Itoa(r.Range(0, 1))
		case 4:
			return name() + "/" + name() + "=" + lit()
		case 5:
			if isJSON {
				return name() + "!=" + lit()
			}
			return "@" + r.Pick("k", "v", "t", "a") + "=" + lit()
		case 6:
			return ".=" + lit()
		case 7:
			return "contains(.," + lit() + ")"
		case 8:
			return "name()='" + names[r.Intn(len(names))] + "'"
		default:
			if isJSON {
				return name()
			}
			return "@" + r.Pick("k", "v", "t", "a")
		}
	}
	switch r.Intn(6) {
	case 0, 1:
	case 2, 3, 4:
		x.preds = []string{pred()}
	default:
		x.preds = []string{pred(), pred()}
	}
	return x
}

type c04Reader interface {
	Read() (*idr.Node, error)
	Release(*idr.Node)
}

func runC04(c *core.Ctx) {
	r := c.R
	isJSON := c.Idx%2 == 1
	format := "xml"
	var doc string
	var dom *xmlquery.Node
	names := []string{"a", "b", "c", "d"}
	rootName := ""
	var forced *c04XPath
	if isJSON {
		format = "json"
		ids := 0
		keys := names
		if r.Chance(1, 3) {
			// property names are arbitrary strings: names that look like paths of the other names, or like predicates
			keys = append(append([]string{}, names...), "a/b", "b/c", "a/b/c", "c/d", "a[1]", "b c")
			c.Inc("json_docs_with_pathlike_keys")
		}
		v := gen.GenJSONObj(r, gen.JSONOpts{MaxDepth: r.Range(2, 6), MaxFan: r.Range(2, 5), KeyAlphabet: keys, IDs: &ids}, 0)
		if r.Chance(1, 8) {
			v = gen.GenJSON(r, gen.JSONOpts{MaxDepth: 3, MaxFan: 4, KeyAlphabet: keys, IDs: &ids}, 0) // any top-level value
		}
		if len(keys) > len(names) && v.Kind == gen.JObj && r.Chance(1, 2) {
			// the genuine nesting n1 -> n2 -> n3 next to a single property of n1 that is named "n2/n3", either one first; the first
			// query of this case asks for /n1/n2/n3
			n1, n2, n3 := names[r.Intn(4)], names[r.Intn(4)], names[r.Intn(4)]
			setKey := func(o *gen.JV, k string, val *gen.JV, front bool) {
				for i := range o.Keys {
					if o.Keys[i] == k {
						o.Vals[i] = val
						return
					}
				}
				if front && len(o.Keys) > 0 {
					// right after "id"
					o.Keys = append([]string{o.Keys[0], k}, o.Keys[1:]...)
					o.Vals = append([]*gen.JV{o.Vals[0], val}, o.Vals[1:]...)
					return
				}
				o.Keys, o.Vals = append(o.Keys, k), append(o.Vals, val)
			}
			leaf := func() *gen.JV {
				if r.Bool() {
					return &gen.JV{Kind: gen.JStr, S: "x"}
				}
				return gen.GenJSONObj(r, gen.JSONOpts{MaxDepth: 2, MaxFan: 2, KeyAlphabet: names, IDs: &ids}, 1)
			}
			o2 := gen.GenJSONObj(r, gen.JSONOpts{MaxDepth: 2, MaxFan: 2, KeyAlphabet: names, IDs: &ids}, 1)
			setKey(o2, n3, leaf(), r.Bool())
			o1 := gen.GenJSONObj(r, gen.JSONOpts{MaxDepth: 2, MaxFan: 2, KeyAlphabet: keys, IDs: &ids}, 1)
			slashFirst := r.Bool()
			setKey(o1, n2, o2, !slashFirst)
			setKey(o1, n2+"/"+n3, leaf(), slashFirst)
			if r.Chance(1, 3) {
				setKey(o1, n2+"/"+names[r.Intn(4)], leaf(), r.Bool())
			}
			setKey(v, n1, o1, r.Bool())
			forced = &c04XPath{base: r.Pick("/"+n1+"/"+n2+"/"+n3, "/"+n1+"/"+n2+"/*", "//"+n2+"/"+n3, "/*/"+n2+"/"+n3)}
			c.Inc("json_docs_with_slash_key_next_to_genuine_nesting")
		}
		// make scalar values matchable by the predicates
		var fix func(x *gen.JV)
		fix = func(x *gen.JV) {
			switch x.Kind {
			case gen.JStr:
				x.S = r.Pick("x", "y", "1", "2", "10", "", "xy", "it's", `q"q`, "]", "[", "']", "x]")
			case gen.JNum:
				x.Num = r.Pick("1", "2", "10", "0", "3.5")
			}
			for _, e := range x.Arr {
				fix(e)
			}
			for i, k := range x.Keys {
				if k != "id" {
					fix(x.Vals[i])
				}
			}
		}
		fix(v)
		doc = gen.EncodeJSON(r, v, r.Bool())
		var err error
		dom, err = xqFromJSON([]byte(doc))
		if err != nil {
			c.Inconclusive("harness JSON serialiser produced invalid JSON: " + err.Error())
			return
		}
		rootName = names[r.Intn(len(names))]
	} else {
		o := gen.XMLOpts{MaxDepth: r.Range(2, 6), MaxFan: r.Range(2, 5), Names: names, Namespaces: r.Chance(1, 4), Mixed: r.Chance(1, 2), Noise: r.Chance(1, 4),
			AttrProb: 4, TextValues: []string{"x", "y", "1", "2", "10", "xy", "it's", `q"q`, "]", "[", "']", "x]"}}
		root := gen.GenXML(r, o)
		doc = gen.EncodeXML(r, root, r.Chance(1, 3))
		m, err := ref.BuildXMLMirror([]byte(doc))
		if err != nil {
			c.Inconclusive("harness XML serialiser produced a document the standard decoder rejects: " + err.Error())
			return
		}
		dom = xqFromMirror(m, nil)
		rootName = root.Local
		if root.Prefix != "" {
			rootName = "*"
		}
	}
	for q := 0; q < 6; q++ {
		xp := genC04XPath(r, names, rootName, isJSON)
		if q == 0 && forced != nil {
			xp.base = forced.base
			if r.Bool() {
				xp.preds = nil
			}
		}
		full := xp.full()
		var cands, matches []*xmlquery.Node
		var err error
		if pi := core.Guard(func() {
			cands, err = selectAll(dom, xp.base)
			if err == nil {
				matches, err = selectAll(dom, full)
			}
		}); pi != nil {
			c.Inc("reference_engine_panics") // the shared xpath engine panics on this expression/document: not an observation
			continue
		}
		if err != nil {
			c.Inc("xpath_compile_errors")
			continue
		}
		inMatch := map[*xmlquery.Node]bool{}
		for _, m := range matches {
			inMatch[m] = true
		}
		var expected []string
		nested, rejected := false, false
		// document order (the engine's result order for // steps is per-parent, not document order)
		ord := map[*xmlquery.Node]int{}
		var number func(n *xmlquery.Node)
		number = func(n *xmlquery.Node) {
			ord[n] = len(ord)
			for ch := n.FirstChild; ch != nil; ch = ch.NextSibling {
				number(ch)
			}
		}
		number(dom)
		sort.SliceStable(cands, func(i, j int) bool { return ord[cands[i]] < ord[cands[j]] })
		// de-duplicate (a union-free path can still report a node once per route)
		var uniq []*xmlquery.Node
		for i, cand := range cands {
			if i == 0 || cand != cands[i-1] {
				uniq = append(uniq, cand)
			}
		}
		cands = uniq
		for _, cand := range cands {
			if cand.Type == xmlquery.DocumentNode {
				continue
			}
			outer := true
			for _, other := range cands {
				if other != cand && other.Type != xmlquery.DocumentNode && contains(other, cand) {
					outer = false
					break
				}
			}
			if !outer {
				nested = true
				continue
			}
			if !inMatch[cand] {
				rejected = true
				continue
			}
			var sb strings.Builder
			xqCanon(cand, &sb)
			expected = append(expected, sb.String())
		}
		c.Inc("pairs")
		c.Inc("pairs:" + format)
		c.Inc("evaluations")
		c.Inc(fmt.Sprintf("predicates:%d", len(xp.preds)))
		if nested {
			c.Inc("pairs_with_nested_candidates")
		}
		if rejected {
			c.Inc("pairs_with_rejected_candidates")
		}
		if len(xp.preds) == 2 {
			c.Inc("pairs_with_two_predicates")
		}
		if len(cands) >= 2 && (nested || rejected) {
			c.Distinct(doc, full)
		}
		c.Count("delivered_nodes_compared", int64(len(expected)))
		detail := func(got []string, how string, extra string) map[string]interface{} {
			return map[string]interface{}{"format": format, "document": core.Trunc(doc, 3000), "xpath": full, "path_without_final_predicates": xp.base,
				"candidates_on_whole_document": len(cands), "expected": expected, "delivered": got, "how": how, "note": extra}
		}
		cause := fmt.Sprintf("preds=%d", len(xp.preds))
		if nested {
			cause += ",nested-candidates"
		}
		// level 1: the stream readers directly, with and without Release
		for _, release := range []bool{true, false} {
			var sr c04Reader
			var err error
			if isJSON {
				sr, err = idr.NewJSONStreamReader(strings.NewReader(doc), full)
			} else {
				sr, err = idr.NewXMLStreamReader(strings.NewReader(doc), full)
			}
			if err != nil {
				c.Violate("C04:"+format+":reader-rejects-xpath", "stream reader rejects an xpath the engine compiles: "+err.Error(), detail(nil, "stream-reader", ""))
				break
			}
			var got []string
			var rerr error
			for i := 0; i < len(doc)+5; i++ {
				var n *idr.Node
				n, rerr = sr.Read()
				if rerr != nil {
					break
				}
				var sb strings.Builder
				idrCanon(n, &sb)
				got = append(got, sb.String())
				if n.NextSibling != nil {
					c.Violate("C04:"+format+":delivered-before-complete", "a delivered node already has a following sibling", detail(got, "stream-reader", ""))
					break
				}
				if release {
					sr.Release(n)
				}
			}
			how := "stream-reader"
			if release {
				how += "+Release"
			}
			if rerr != io.EOF && rerr != nil {
				c.Violate("C04:"+format+":read-error", "stream reader failed on a well-formed document: "+rerr.Error(), detail(got, how, ""))
				continue
			}
			if why := c04Compare(got, expected); why != "" {
				c.Violate("C04:"+format+":"+why+":"+cause, "delivered nodes differ from the whole-document selection: "+why, detail(got, how, ""))
			}
		}
		// level 2: end to end through Transform.Read with a copy schema (every 3rd pair)
		if q%3 == 0 {
			schema := fmt.Sprintf(`{"parser_settings":{"version":"omni.2.1","file_format_type":%q},"transform_declarations":{"FINAL_OUTPUT":{"xpath":%s,"custom_func":{"name":"copy"},"keep_empty_or_null":true}}}`,
				format, strconv.Quote(full))
			s, err := omni.NewSchema([]byte(schema))
			if err != nil {
				c.Inc("schema_rejected")
				continue
			}
			tr := omni.RunAll(s, strings.NewReader(doc), omni.RunOpts{MaxReads: len(doc) + 5, NoRaw: true})
			c.Inc("end_to_end_pairs")
			oks := 0
			for _, st := range tr {
				if st.Class == omni.OK {
					oks++
				}
			}
			last := tr[len(tr)-1]
			if oks != len(expected) || last.Class != omni.EOF {
				c.Violate("C04:"+format+":end-to-end-count:"+cause, fmt.Sprintf("Transform delivered %d records (terminal %s), whole-document selection has %d", oks, last.Class, len(expected)),
					detail(nil, "Transform.Read", core.Trunc(tr.Classes(), 200)+" "+core.Trunc(last.ErrMsg, 200)))
			}
		}
		if c.Idx < 6 && q == 0 {
			c.Sample(map[string]interface{}{"format": format, "xpath": full, "document": core.Trunc(doc, 240), "expected_targets": len(expected), "candidates": len(cands)})
		}
	}
}

func c04Compare(got, want []string) string {
	if len(got) == len(want) {
		for i := range got {
			if got[i] != want[i] {
				// same multiset?
				cnt := map[string]int{}
				for _, g := range got {
					cnt[g]++
				}
				for _, w := range want {
					cnt[w]--
				}
				for _, v := range cnt {
					if v != 0 {
						return "different-node-or-subtree"
					}
				}
				return "order"
			}
		}
		return ""
	}
	set := map[string]int{}
	for _, w := range want {
		set[w]++
	}
	extra, dup := 0, 0
	seen := map[string]int{}
	for _, g := range got {
		seen[g]++
		if seen[g] > set[g] {
			if set[g] > 0 {
				dup++
			} else {
				extra++
			}
		}
	}
	switch {
	case dup > 0:
		return "delivered-twice"
	case extra > 0:
		return "non-matching-node-delivered"
	default:
		return "matching-node-skipped"
	}
}
