package props

import (
	"bytes"
	"crypto/sha256"
	"encoding/base64"
	"encoding/hex"
	"encoding/json"
	"fmt"
	"os"
	"os/exec"
	"path/filepath"
	"strings"

	"verif/harness/core"
	"verif/harness/gen"
	"verif/harness/omni"
)

// C15 — results and checksums are a deterministic function of schema and input.

func init() {
	core.Register(&core.Prop{
		ID:    "C15",
		Level: "exploration",
		Rule: "two monitors. (1) each case = one (schema, input, externals) of one format with a rich schema (many sibling declarations in random key order, " +
			"templates, arrays, custom functions, javascript, external properties); transcript digests of: first run, repeat on the same Schema object, " +
			"a Schema re-created from the same bytes (fresh random declaration hashes), a run after 5-25 other transforms of other formats in the same " +
			"process (pools/caches warm, ID counter advanced), and (every 3rd case) a run in a fresh process with a different GOMAXPROCS; all equal. " +
			"(2) checksum pairs: equal raw records at different positions / in different inputs -> equal checksums; one ingested leaf value changed " +
			"(column, element text, attribute value, JSON scalar incl. 1 vs \"1\", null vs \"\", true vs \"true\") -> different checksums. " +
			"Also: several failing fields in one object; a Schema object whose first transform had other external properties; bulk inputs (250-900 records) with javascript_with_context on the record and its ancestors, compared with a fresh process. " +
			"distinct = digest(schema, input) / digest(pair); non-trivial = transcript with >=2 records.",
		Assumptions: []string{
			"`now`, uuid-generating and randomness-drawing scripts are excluded by the statement and never generated",
			"XML mixed-content text and inter-element whitespace are documented as dropped from the record's JSON rendering; checksum sensitivity to them is reported separately and is not part of the verdict",
		},
		Cases: func(t core.Tier) int {
			if t == core.Thorough {
				return 28000
			}
			return 840
		},
		Run: runC15,
		Min: func(t core.Tier) map[string]int64 {
			return map[string]int64{"digest_comparisons": 1500, "fresh_process_runs": 60, "checksum_pairs_equal": 200, "checksum_pairs_differ": 400}
		},
	})
}

func transcriptDigest(t omni.Transcript) string {
	h := sha256.Sum256([]byte(t.String()))
	return hex.EncodeToString(h[:8])
}

// XDigestMain is the body of `vrun xdigest <file>`: runs one (schema, input, externals) in this fresh process and prints the transcript digest.
func XDigestMain(path string) int {
	b, err := os.ReadFile(path)
	if err != nil {
		fmt.Println("ERR", err)
		return 2
	}
	var job struct {
		Schema, Input string
		Ext           map[string]string
	}
	if err := json.Unmarshal(b, &job); err != nil {
		fmt.Println("ERR", err)
		return 2
	}
	s, err := omni.NewSchema([]byte(job.Schema))
	if err != nil {
		fmt.Println("ERR schema", err)
		return 2
	}
	in, err := base64.StdEncoding.DecodeString(job.Input)
	if err != nil {
		fmt.Println("ERR input", err)
		return 2
	}
	tr := omni.RunAll(s, bytes.NewReader(in), omni.RunOpts{MaxReads: 5000, ExtraReads: 1, Ext: job.Ext})
	fmt.Println("DIGEST", transcriptDigest(tr))
	return 0
}

// shuffleObjectKeys re-serialises the schema with object keys in a random order (the meaning of a JSON object does not
// depend on key order; map iteration order is the classic hidden input).
func shuffleJSON(r *core.Rand, v interface{}) string {
	switch x := v.(type) {
	case map[string]interface{}:
		keys := make([]string, 0, len(x))
		for k := range x {
			keys = append(keys, k)
		}
		sortStringsC15(keys)
		p := r.Perm(len(keys))
		var sb strings.Builder
		sb.WriteString("{")
		for i, pi := range p {
			if i > 0 {
				sb.WriteString(",")
			}
			kb, _ := json.Marshal(keys[pi])
			sb.Write(kb)
			sb.WriteString(":")
			sb.WriteString(shuffleJSON(r, x[keys[pi]]))
		}
		sb.WriteString("}")
		return sb.String()
	case []interface{}:
		var sb strings.Builder
		sb.WriteString("[")
		for i, e := range x {
			if i > 0 {
				sb.WriteString(",")
			}
			sb.WriteString(shuffleJSON(r, e))
		}
		sb.WriteString("]")
		return sb.String()
	default:
		b, _ := json.Marshal(x)
		return string(b)
	}
}

func sortStringsC15(s []string) {
	for i := 1; i < len(s); i++ {
		for j := i; j > 0 && s[j] < s[j-1]; j-- {
			s[j], s[j-1] = s[j-1], s[j]
		}
	}
}

func runC15(c *core.Ctx) {
	if c.Idx%4 == 3 {
		c15Checksums(c)
		return
	}
	if c.Idx%12 == 5 {
		c15BulkJS(c)
		return
	}
	r := c.R
	format := gen.Formats[c.Idx%len(gen.Formats)]
	cs := genFormatCase(c, r, format, r.Chance(1, 4))
	// rich schema with extra sibling declarations and an external, keys shuffled
	var doc map[string]interface{}
	json.Unmarshal(cs.kit.Schema(gen.ModeRich), &doc)
	td := doc["transform_declarations"].(map[string]interface{})
	fo := td["FINAL_OUTPUT"].(map[string]interface{})
	obj := fo["object"].(map[string]interface{})
	for i := 0; i < r.Range(3, 12); i++ {
		name := fmt.Sprintf("%c%d", 'a'+rune(r.Intn(26)), r.Intn(100))
		switch r.Intn(5) {
		case 4:
			obj[name] = map[string]interface{}{"array": []interface{}{map[string]interface{}{"xpath": r.Pick("id | n | f1", "f1 | id", "n | id | *")}}}
		case 0:
			obj[name] = map[string]interface{}{"const": gen.RandString(r, 5, false)}
		case 1:
			obj[name] = map[string]interface{}{"external": "ext1"}
		case 2:
			obj[name] = map[string]interface{}{"xpath": r.Pick("id", "n", "f1")}
		default:
			obj[name] = map[string]interface{}{"custom_func": map[string]interface{}{"name": "concat", "args": []interface{}{
				map[string]interface{}{"xpath": "id"}, map[string]interface{}{"external": "ext2"}}}}
		}
	}
	if r.Chance(1, 2) {
		// date-time functions without a zone: nothing of the process's own local zone may show (the fresh process runs under another TZ)
		obj["zz_epoch"] = map[string]interface{}{"custom_func": map[string]interface{}{"name": "epochToDateTimeRFC3339", "args": []interface{}{
			map[string]interface{}{"const": "1234567890"}, map[string]interface{}{"const": "SECOND"}, map[string]interface{}{"const": ""}}}}
		obj["zz_epoch2"] = map[string]interface{}{"custom_func": map[string]interface{}{"name": "epochToDateTimeRFC3339", "args": []interface{}{
			map[string]interface{}{"const": "86399999"}, map[string]interface{}{"const": "MILLISECOND"}}}}
		obj["zz_dt"] = map[string]interface{}{"custom_func": map[string]interface{}{"name": "dateTimeToRFC3339", "args": []interface{}{
			map[string]interface{}{"const": "2021-03-14 01:59:59"}, map[string]interface{}{"const": ""}, map[string]interface{}{"const": ""}}}}
		obj["zz_ep"] = map[string]interface{}{"custom_func": map[string]interface{}{"name": "dateTimeToEpoch", "args": []interface{}{
			map[string]interface{}{"const": "2021-03-14 01:59:59"}, map[string]interface{}{"const": ""}, map[string]interface{}{"const": "SECOND"}}}}
		c.Inc("schemas_with_zoneless_datetime_calls")
	}
	if r.Chance(1, 3) {
		// several fields of the same object that fail on the same record (on the records whose number is not one, or on all): which
		// failure is reported must not vary between loads of the same schema bytes
		for i := 0; i < r.Range(2, 5); i++ {
			name := fmt.Sprintf("%c%dx", 'a'+rune(r.Intn(26)), r.Intn(100))
			switch r.Intn(4) {
			case 0:
				obj[name] = map[string]interface{}{"xpath": r.Pick("id", "f1"), "type": r.Pick("int", "float")}
			case 1:
				obj[name] = map[string]interface{}{"custom_func": map[string]interface{}{"name": "vf_fail", "args": []interface{}{map[string]interface{}{"const": omni.FailMarker}}}}
			default:
				obj[name] = map[string]interface{}{"xpath": "n", "type": r.Pick("int", "int", "float", "boolean")}
			}
		}
		c.Inc("schemas_with_several_failing_fields_in_one_object")
	}
	schema := shuffleJSON(r, doc)
	ext := map[string]string{"ext1": "E1-" + gen.RandString(r, 4, false), "ext2": "E2"}
	run := func(sch string) (omni.Transcript, error) {
		s, err := omni.NewSchema([]byte(sch))
		if err != nil {
			return nil, err
		}
		return omni.RunAll(s, bytes.NewReader(cs.input), omni.RunOpts{MaxReads: 5000, ExtraReads: 1, Ext: ext}), nil
	}
	s1, err := omni.NewSchema([]byte(schema))
	if err != nil {
		c.Inconclusive("rich schema rejected: " + err.Error())
		return
	}
	t1 := omni.RunAll(s1, bytes.NewReader(cs.input), omni.RunOpts{MaxReads: 5000, ExtraReads: 1, Ext: ext})
	d1 := transcriptDigest(t1)
	c.Inc("inputs")
	c.Inc("inputs:" + format)
	nrec := 0
	for _, st := range t1 {
		if st.Class == omni.OK {
			nrec++
		}
	}
	if nrec >= 2 {
		c.Distinct(schema, string(cs.input))
	}
	report := func(kind string, t2 omni.Transcript) {
		i := firstDiff(t1, t2)
		c.Violate("C15:"+kind+":"+format+":"+c09DiffClass(t2, t1, i), "same (schema, input, externals) gave a different result sequence: "+kind,
			map[string]interface{}{"format": format, "schema": schema, "input": core.Trunc(string(cs.input), 3000), "externals": ext,
				"first_difference_at_step": i, "first_run": stepAt(t1, i), "other_run": stepAt(t2, i)})
	}
	// repeat on the same Schema object
	t2 := omni.RunAll(s1, bytes.NewReader(cs.input), omni.RunOpts{MaxReads: 5000, ExtraReads: 1, Ext: ext})
	c.Inc("digest_comparisons")
	c.Inc("evaluations")
	if transcriptDigest(t2) != d1 {
		report("repeat-same-schema-object", t2)
	}
	// schema re-created from the same bytes
	t3, _ := run(schema)
	c.Inc("digest_comparisons")
	c.Inc("evaluations")
	if transcriptDigest(t3) != d1 {
		report("schema-recreated", t3)
	}
	// a Schema object that first served a transform with OTHER external properties (and another input order), then this triple
	if s3, err := omni.NewSchema([]byte(schema)); err == nil {
		other := map[string]string{"ext1": "OTHER-" + gen.RandString(r, 3, false), "ext2": "other2"}
		omni.RunAll(s3, bytes.NewReader(cs.input), omni.RunOpts{MaxReads: 5000, ExtraReads: 1, Ext: other})
		t5 := omni.RunAll(s3, bytes.NewReader(cs.input), omni.RunOpts{MaxReads: 5000, ExtraReads: 1, Ext: ext})
		c.Inc("digest_comparisons")
		c.Inc("evaluations")
		c.Inc("runs_on_a_schema_object_that_served_other_externals_first")
		if transcriptDigest(t5) != d1 {
			report("schema-object-served-other-externals-first", t5)
		}
	}
	// same declarations, different key order in the schema text: not the same schema bytes, reported separately as an observation only
	// warm history
	hist := r.Range(5, 25)
	for i := 0; i < hist; i++ {
		of := gen.Formats[r.Intn(len(gen.Formats))]
		oc := genFormatCase(c, r, of, r.Chance(1, 3))
		if os, err := omni.NewSchema(oc.schema); err == nil {
			omni.RunAll(os, bytes.NewReader(oc.input), omni.RunOpts{MaxReads: 3000})
		}
	}
	c.Count("history_transforms", int64(hist))
	t4, _ := run(schema)
	c.Inc("digest_comparisons")
	c.Inc("evaluations")
	if transcriptDigest(t4) != d1 {
		report("after-other-transforms", t4)
	}
	// fresh process
	if c.Idx%3 == 0 {
		c15Fresh(c, r, format, schema, cs.input, ext, d1)
	}
	if c.Idx < 12 {
		c.Sample(map[string]interface{}{"format": format, "schema_keys_shuffled": true, "classes": core.Trunc(t1.Classes(), 80), "digest": d1})
	}
}

// c15Fresh runs the triple in a fresh process (own node ID counter, empty caches and pools) and compares the digest.
func c15Fresh(c *core.Ctx, r *core.Rand, format, schema string, input []byte, ext map[string]string, d1 string) {
	dir := filepath.Join(os.Getenv("VERIF_DIR"), ".build", "run", "C15x")
	if os.Getenv("VERIF_DIR") == "" {
		dir = "/verif/.build/run/C15x"
	}
	os.MkdirAll(dir, 0o755)
	path := filepath.Join(dir, fmt.Sprintf("job-%d-%d.json", os.Getpid(), c.Idx))
	jb, _ := json.Marshal(map[string]interface{}{"Schema": schema, "Input": base64.StdEncoding.EncodeToString(input), "Ext": ext})
	if err := os.WriteFile(path, jb, 0o644); err != nil {
		return
	}
	self, _ := os.Executable()
	cmd := exec.Command(self, "xdigest", path)
	cmd.Env = append(os.Environ(), "GOMAXPROCS="+r.Pick("1", "2", "4", "16"), "TZ="+r.Pick("Asia/Tokyo", "America/New_York", "UTC", "Australia/Adelaide"))
	out, err := cmd.CombinedOutput()
	os.Remove(path)
	c.Inc("fresh_process_runs")
	c.Inc("digest_comparisons")
	c.Inc("evaluations")
	line := strings.TrimSpace(string(out))
	switch {
	case err != nil || !strings.HasPrefix(line, "DIGEST "):
		c.Inconclusive("fresh-process run failed: " + core.Trunc(line, 300))
	case strings.TrimPrefix(line, "DIGEST ") != d1:
		c.Violate("C15:fresh-process:"+format, "a fresh process gives a different result sequence for the same (schema, input, externals)",
			map[string]interface{}{"format": format, "schema": schema, "input": core.Trunc(string(input), 3000), "externals": ext, "digest_here": d1, "digest_fresh": line})
	}
}

// c15BulkJS: several hundred records whose transform renders the record AND its long-lived ancestors to JSON for javascript; compared
// between this process (node ID counter far along, caches warm) and a fresh one (counter at its start). Whatever is keyed by node IDs or
// depends on how many nodes the process has created so far shows up as a difference.
func c15BulkJS(c *core.Ctx) {
	r := c.R
	format := r.Pick("xml", "json")
	k := gen.NewKit(r, format)
	k.TopArray = false
	n := r.Range(250, 900)
	var recs []gen.Rec
	for i := 0; i < n; i++ {
		recs = append(recs, k.GenRec(r, i))
	}
	input := k.Render(r, recs, gen.RenderOpts{})
	var doc map[string]interface{}
	json.Unmarshal(k.Schema(gen.ModePass), &doc)
	fo := doc["transform_declarations"].(map[string]interface{})["FINAL_OUTPUT"].(map[string]interface{})
	jsw := func(xp, script string) map[string]interface{} {
		m := map[string]interface{}{"custom_func": map[string]interface{}{"name": "javascript_with_context", "args": []interface{}{map[string]interface{}{"const": script}}}}
		if xp != "" {
			m["xpath"] = xp
		}
		return m
	}
	fo["object"] = map[string]interface{}{
		"id":   map[string]interface{}{"xpath": "id"},
		"self": jsw("", "JSON.stringify(_node)"),
		"up":   jsw("..", "JSON.stringify(_node)"),
		"up2":  jsw("../..", "JSON.stringify(_node).length"),
		"leaf": jsw("id", "'' + _node"),
	}
	sb, _ := json.Marshal(doc)
	schema := string(sb)
	s, err := omni.NewSchema(sb)
	if err != nil {
		c.Inconclusive("bulk js schema rejected: " + err.Error())
		return
	}
	t1 := omni.RunAll(s, bytes.NewReader(input), omni.RunOpts{MaxReads: 5000, ExtraReads: 1})
	ok := 0
	for _, st := range t1 {
		if st.Class == omni.OK {
			ok++
		}
	}
	c.Inc("bulk_js_inputs")
	c.Count("bulk_js_records", int64(ok))
	if ok < n/2 {
		c.Inconclusive(fmt.Sprintf("bulk js run delivered %d of %d records: %s", ok, n, core.Trunc(t1[len(t1)-1].ErrMsg, 200)))
		return
	}
	c.Distinct(schema, string(input))
	c15Fresh(c, r, format, schema, input, nil, transcriptDigest(t1))
}

// ---- checksum monitor ----

func checksumsOf(schema []byte, input []byte) ([]string, string) {
	s, err := omni.NewSchema(schema)
	if err != nil {
		return nil, "schema rejected: " + err.Error()
	}
	tr := omni.RunAll(s, bytes.NewReader(input), omni.RunOpts{MaxReads: 1000})
	var cs []string
	for _, st := range tr.Reads() {
		if st.Class == omni.OK {
			cs = append(cs, st.Checksum)
		} else if st.Class == omni.FATAL {
			return nil, "fatal: " + st.ErrMsg
		}
	}
	return cs, ""
}

func xmlSchema(xpath string) []byte {
	return []byte(`{"parser_settings":{"version":"omni.2.1","file_format_type":"xml"},"transform_declarations":{"FINAL_OUTPUT":{"xpath":"` + xpath + `","custom_func":{"name":"copy"}}}}`)
}
func jsonSchema(xpath string) []byte {
	return []byte(`{"parser_settings":{"version":"omni.2.1","file_format_type":"json"},"transform_declarations":{"FINAL_OUTPUT":{"xpath":"` + xpath + `","custom_func":{"name":"copy"}}}}`)
}

func c15Checksums(c *core.Ctx) {
	r := c.R
	format := gen.Formats[(c.Idx/4)%len(gen.Formats)]
	k := gen.NewKit(r, format)
	k.ReplaceDQ = false
	schema := k.Schema(gen.ModePass)
	n := r.Range(3, 10)
	var recs []gen.Rec
	for i := 0; i < n; i++ {
		recs = append(recs, k.GenRec(r, i))
	}
	// equal content at two positions and in another input
	dupAt := r.Range(1, n-1)
	recs[dupAt] = recs[0]
	o := gen.RenderOpts{BlankLines: r.Chance(1, 3)}
	in1 := k.Render(r.Fork(), recs, o)
	cs1, why := checksumsOf(schema, in1)
	if cs1 == nil || len(cs1) != n {
		c.Inconclusive(fmt.Sprintf("checksum baseline for %s failed: %s (%d checksums for %d records)", format, why, len(cs1), n))
		return
	}
	detail := func(extra map[string]interface{}) map[string]interface{} {
		d := map[string]interface{}{"format": format, "schema": string(schema), "input": core.Trunc(string(in1), 2000)}
		for kk, v := range extra {
			d[kk] = v
		}
		return d
	}
	c.Inc("checksum_pairs_equal")
	c.Inc("evaluations")
	if cs1[0] != cs1[dupAt] {
		c.Violate("C15:checksum-differs-for-equal-records:"+format, "two equal raw records in one input have different checksums", detail(map[string]interface{}{"positions": []int{0, dupAt}, "checksums": []string{cs1[0], cs1[dupAt]}}))
	}
	// the same record alone in another input
	in2 := k.Render(r.Fork(), []gen.Rec{recs[0]}, gen.RenderOpts{})
	cs2, _ := checksumsOf(schema, in2)
	c.Inc("checksum_pairs_equal")
	c.Inc("evaluations")
	if len(cs2) != 1 || cs2[0] != cs1[0] {
		c.Violate("C15:checksum-differs-across-inputs:"+format, "the same raw record has a different checksum in another input", detail(map[string]interface{}{"other_input": string(in2), "checksums": []interface{}{cs1[0], cs2}}))
	}
	// one leaf value changed
	for t := 0; t < 3; t++ {
		i := r.Intn(n)
		ch := append([]gen.Rec{}, recs...)
		m := ch[i]
		m.F = append([]string{}, m.F...)
		what := ""
		switch r.Intn(3) {
		case 0:
			m.ID = m.ID + "x"
			what = "id"
		case 1:
			m.Num = m.Num + "1"
			what = "n"
		default:
			j := r.Intn(len(m.F))
			old := m.F[j]
			m.F[j] = old + "z"
			if k.Widths != nil && len([]rune(old)) >= k.Widths[2+j] {
				m.F[j] = "z" + string([]rune(old)[1:])
				if m.F[j] == old {
					m.F[j] = "y" + string([]rune(old)[1:])
				}
			}
			what = fmt.Sprintf("f%d", j+1)
		}
		ch[i] = m
		in3 := k.Render(r.Fork(), ch, o)
		cs3, why3 := checksumsOf(schema, in3)
		if len(cs3) != n {
			c.Inconclusive("changed input did not produce the same number of records: " + why3)
			continue
		}
		c.Inc("checksum_pairs_differ")
		c.Inc("evaluations")
		c.Distinct("checksum", format, string(in3))
		if cs3[i] == cs1[i] {
			c.Violate("C15:checksum-equal-for-different-records:"+format+":"+what, "changing one ingested value left the record's checksum unchanged",
				detail(map[string]interface{}{"changed_field": what, "position": i, "changed_input": core.Trunc(string(in3), 2000), "checksum": cs1[i]}))
		}
	}
	// format-specific leaf kinds
	type pair struct {
		kind   string
		schema []byte
		a, b   string
		equal  bool
		soft   bool // reported, not part of the verdict
	}
	v1, v2 := gen.RandString(r, 4, false)+"1", gen.RandString(r, 4, false)+"2"
	pairs := []pair{
		{"xml-attribute-value", xmlSchema("/r/rec"), `<r><rec a="` + v1 + `"><x>1</x><y>2</y></rec></r>`, `<r><rec a="` + v2 + `"><x>1</x><y>2</y></rec></r>`, false, false},
		{"xml-attribute-on-leaf", xmlSchema("/r/rec"), `<r><rec><x a="` + v1 + `">1</x></rec></r>`, `<r><rec><x a="` + v2 + `">1</x></rec></r>`, false, false},
		{"xml-nested-element-text", xmlSchema("/r/rec"), `<r><rec><x><y>` + v1 + `</y></x></rec></r>`, `<r><rec><x><y>` + v2 + `</y></x></rec></r>`, false, false},
		{"xml-attribute-on-element-with-repeated-children", xmlSchema("/r/rec"), `<r><rec a="` + v1 + `"><x>1</x><x>2</x></rec></r>`, `<r><rec a="` + v2 + `"><x>1</x><x>2</x></rec></r>`, false, false},
		{"xml-repeated-children-order", xmlSchema("/r/rec"), `<r><rec><x>` + v1 + `</x><x>` + v2 + `</x></rec></r>`, `<r><rec><x>` + v2 + `</x><x>` + v1 + `</x></rec></r>`, false, false},
		{"xml-same-record-other-ancestors", xmlSchema("//rec"), `<r><rec><x>` + v1 + `</x></rec></r>`, `<q><w><rec><x>` + v1 + `</x></rec></w></q>`, true, false},
		{"xml-mixed-content-text", xmlSchema("/r/rec"), `<r><rec>` + v1 + `<x>1</x></rec></r>`, `<r><rec>` + v2 + `<x>1</x></rec></r>`, false, true},
		{"json-number-vs-string", jsonSchema("/recs/*"), `{"recs":[{"a":1}]}`, `{"recs":[{"a":"1"}]}`, false, false},
		{"json-null-vs-empty-string", jsonSchema("/recs/*"), `{"recs":[{"a":null}]}`, `{"recs":[{"a":""}]}`, false, false},
		{"json-bool-vs-string", jsonSchema("/recs/*"), `{"recs":[{"a":true}]}`, `{"recs":[{"a":"true"}]}`, false, false},
		{"json-nested-scalar", jsonSchema("/recs/*"), `{"recs":[{"a":{"b":[1,"` + v1 + `"]}}]}`, `{"recs":[{"a":{"b":[1,"` + v2 + `"]}}]}`, false, false},
		{"json-array-order", jsonSchema("/recs/*"), `{"recs":[{"a":["` + v1 + `","` + v2 + `"]}]}`, `{"recs":[{"a":["` + v2 + `","` + v1 + `"]}]}`, false, false},
		{"json-key-order-irrelevant", jsonSchema("/recs/*"), `{"recs":[{"a":"` + v1 + `","b":2}]}`, `{"recs":[{"b":2,"a":"` + v1 + `"}]}`, true, true},
		{"json-empty-object-vs-empty-array", jsonSchema("/recs/*"), `{"recs":[{"a":{}}]}`, `{"recs":[{"a":[]}]}`, false, false},
	}
	p := pairs[r.Intn(len(pairs))]
	ca, _ := checksumsOf(p.schema, []byte(p.a))
	cb, _ := checksumsOf(p.schema, []byte(p.b))
	if len(ca) != 1 || len(cb) != 1 {
		c.Inconclusive("format-specific checksum pair did not produce one record each: " + p.kind)
		return
	}
	c.Inc("pairkind:" + p.kind)
	if p.soft {
		if (ca[0] == cb[0]) != p.equal {
			c.Inc("soft_observation:" + p.kind + ":unexpected")
		} else {
			c.Inc("soft_observation:" + p.kind + ":as-expected")
		}
		return
	}
	if p.equal {
		c.Inc("checksum_pairs_equal")
	} else {
		c.Inc("checksum_pairs_differ")
	}
	c.Inc("evaluations")
	if (ca[0] == cb[0]) != p.equal {
		sig := "C15:checksum-equal-for-different-records:"
		msg := "two raw records that differ in an ingested value have the same checksum"
		if p.equal {
			sig = "C15:checksum-differs-for-equal-records:"
			msg = "two equal raw records have different checksums"
		}
		c.Violate(sig+p.kind, msg, map[string]interface{}{"kind": p.kind, "input_a": p.a, "input_b": p.b, "checksum_a": ca[0], "checksum_b": cb[0]})
	}
}
