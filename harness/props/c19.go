package props

import (
	"fmt"
	"os"
	"path/filepath"
	"sort"
	"strconv"
	"strings"
	"sync"
	"time"

	"github.com/jf-tech/omniparser/customfuncs"

	"verif/harness/core"
)

// C19 — date-time functions preserve the instant and invert each other.
// Oracle: generate from the instant side; expected values come from Go's time arithmetic on the generated
// instant, never from re-parsing the rendered string with the code under test.

func init() {
	core.Register(&core.Prop{
		ID:    "C19",
		Level: "exploration",
		Rule: "each case = 200 calls; a call = (instant in years 1..9999 incl. boundaries and DST transitions ±1s, rendering zone, date form, time form, " +
			"fraction digits, tz-suffix form, fromTZ/toTZ/unit arguments) through one of the four exported functions; expected value computed from the " +
			"instant with time arithmetic. A quarter to a third of the checked calls are preceded by a call that differs in one argument (result discarded); the error side includes days a month does not have in every advertised spelling. distinct = distinct (function, date form, time form, tz form, fromTZ?, toTZ?, zone, year-century) tuples; " +
			"non-trivial = the call returned a value that was compared (not the empty-input case).",
		Assumptions: []string{
			"Go's time package (Date, In, Format of numeric fields, LoadLocation) and /usr/share/zoneinfo are the trusted base for expected values",
			"when a zone's UTC offset is not a whole number of minutes (LMT era) RFC3339 cannot carry the instant; then wall clock and minute-truncated offset are compared instead of the instant",
			"wall clocks that are ambiguous at a DST fall-back accept either instant",
			"sub-millisecond digits of negative epochs: floor and truncation both accepted",
			"advertised-but-missing smart-parse forms of the go-corelib dependency (4 fraction digits followed by ' PM') are not generated",
		},
		Cases: func(t core.Tier) int {
			if t == core.Thorough {
				return 100000
			}
			return 2000
		},
		Run: runC19,
		Min: func(t core.Tier) map[string]int64 {
			return map[string]int64{"calls": 50000, "fn:dateTimeToRFC3339": 10000, "fn:dateTimeToEpoch": 5000, "fn:epochToDateTimeRFC3339": 5000,
				"fn:dateTimeLayoutToRFC3339": 3000, "dst_adjacent": 500, "errorside": 1000}
		},
	})
}

var (
	c19ZonesOnce sync.Once
	c19Zones     []string // loadable IANA names
	c19SufZones  []string // subset accepted as "-Name" suffix by the smart parser (probed once)
	c19Locs      = map[string]*time.Location{}
)

func loadC19Zones() {
	root := "/usr/share/zoneinfo"
	filepath.Walk(root, func(p string, info os.FileInfo, err error) error {
		if err != nil || info.IsDir() {
			return nil
		}
		name := strings.TrimPrefix(p, root+"/")
		if strings.HasPrefix(name, "posix/") || strings.HasPrefix(name, "right/") || !strings.ContainsAny(name[:1], "ABCDEFGHIJKLMNOPQRSTUVWXYZ") {
			return nil
		}
		if strings.Contains(name, ".") || name == "Factory" || name == "localtime" || name == "posixrules" {
			return nil
		}
		loc, err := time.LoadLocation(name)
		if err != nil {
			return nil
		}
		c19Locs[name] = loc
		c19Zones = append(c19Zones, name)
		return nil
	})
	sort.Strings(c19Zones)
	// which names does the smart parser recognise as a suffix? probe with a fixed date (result unused beyond hasTZ-ness).
	for _, z := range c19Zones {
		out, err := customfuncs.DateTimeToRFC3339(nil, "2020-06-15T12:00:00-"+z, "", "")
		if err == nil && len(out) > 19 {
			c19SufZones = append(c19SufZones, z)
		}
	}
}

var c19Common = []string{"UTC", "America/New_York", "America/Los_Angeles", "America/Chicago", "America/Sao_Paulo", "America/St_Johns",
	"Europe/London", "Europe/Berlin", "Europe/Moscow", "Europe/Dublin", "Africa/Cairo", "Africa/Casablanca", "Asia/Kolkata", "Asia/Kathmandu",
	"Asia/Tokyo", "Asia/Shanghai", "Asia/Tehran", "Asia/Jerusalem", "Australia/Sydney", "Australia/Lord_Howe", "Australia/Adelaide",
	"Pacific/Auckland", "Pacific/Chatham", "Pacific/Apia", "Pacific/Kiritimati", "Pacific/Honolulu", "America/Anchorage", "America/Havana",
	"America/Santiago", "Atlantic/Azores", "Antarctica/Troll", "Etc/GMT-5", "Etc/GMT+12", "America/Argentina/Buenos_Aires", "America/Indiana/Knox",
	"Asia/Pyongyang", "Europe/Istanbul", "America/Caracas", "Asia/Gaza", "Africa/Windhoek"}

func c19PickZone(c *core.Ctx, r *core.Rand, suffix bool) string {
	list := c19Zones
	if suffix {
		list = c19SufZones
	}
	if c.Tier == core.Quick || r.Chance(1, 2) {
		for i := 0; i < 8; i++ {
			z := c19Common[r.Intn(len(c19Common))]
			if _, ok := c19Locs[z]; !ok {
				continue
			}
			if suffix && !containsStr(c19SufZones, z) {
				continue
			}
			return z
		}
	}
	return list[r.Intn(len(list))]
}

func containsStr(ss []string, s string) bool {
	i := sort.SearchStrings(ss, s)
	return i < len(ss) && ss[i] == s
}

const (
	c19MinSec = -62135596800 // 0001-01-01T00:00:00Z
	c19MaxSec = 253402300799 // 9999-12-31T23:59:59Z
)

// dstTransition finds one offset transition of loc in a random year (unix second of the first instant with the new offset), or 0.
func dstTransition(r *core.Rand, loc *time.Location) int64 {
	year := r.Range(1950, 2037)
	start := time.Date(year, 1, 1, 0, 0, 0, 0, time.UTC).Unix()
	_, prev := time.Unix(start, 0).In(loc).Zone()
	var found []int64
	for d := int64(1); d <= 366; d++ {
		ts := start + d*86400
		_, off := time.Unix(ts, 0).In(loc).Zone()
		if off != prev {
			lo, hi := ts-86400, ts
			for hi-lo > 1 {
				mid := (lo + hi) / 2
				_, o := time.Unix(mid, 0).In(loc).Zone()
				if o == prev {
					lo = mid
				} else {
					hi = mid
				}
			}
			found = append(found, hi)
			prev = off
		}
	}
	if len(found) == 0 {
		return 0
	}
	return found[r.Intn(len(found))]
}

var c19Boundaries = []int64{c19MinSec, c19MinSec + 1, c19MaxSec, c19MaxSec - 1, 0, -1, 1, 2147483647, 2147483648, -2147483648,
	-9223372037, -9223372036, 9223372036, 9223372037, // ±2^63 ns
	951782400, 951868799, 1709164800, 4107542400, -2203891200, // leap days 2000-02-29, 2024-02-29, 2100-03-01, 1900-03-01
	-11644473600, 32503680000, 253370764800}

type c19Inst struct {
	sec  int64
	nano int
	dst  bool
}

func c19Instant(c *core.Ctx, r *core.Rand, loc *time.Location) c19Inst {
	var in c19Inst
	switch k := r.Intn(10); {
	case k < 2:
		in.sec = c19Boundaries[r.Intn(len(c19Boundaries))] + int64(r.Range(-2, 2))
	case k < 5 && loc != nil:
		if tr := dstTransition(r, loc); tr != 0 {
			in.sec = tr + int64(r.Range(-3601, 3601))
			if r.Bool() {
				in.sec = tr + int64(r.Range(-1, 1))
			}
			in.dst = true
		} else {
			in.sec = c19MinSec + r.Int63n(c19MaxSec-c19MinSec+1)
		}
	case k < 7:
		// recent era
		in.sec = -2208988800 + r.Int63n(4102444800+2208988800) // 1900..2100
	default:
		in.sec = c19MinSec + r.Int63n(c19MaxSec-c19MinSec+1)
	}
	// keep every zone's wall clock, and every re-interpretation of it in another zone, inside years 1..9999
	if in.sec < c19MinSec+3*86400 {
		in.sec = c19MinSec + 3*86400 + r.Int63n(1000)
	}
	if in.sec > c19MaxSec-3*86400 {
		in.sec = c19MaxSec - 3*86400 - r.Int63n(1000)
	}
	return in
}

type c19Str struct {
	s        string
	dateForm string
	timeForm string // "" = date only
	tzForm   string // none|Z|hh|hhmm|hh:mm|iana
	hasTZ    bool
	wall     time.Time // wall clock fields carried in UTC location
	// for hasTZ strings: the exact set of acceptable instants (unix seconds) and the zone the string names
	zoneLoc  *time.Location // for iana; nil otherwise
	fixedOff int            // for Z/offset forms
	fracNs   int
	fracDig  int
}

func pad(n, w int) string {
	s := strconv.Itoa(n)
	for len(s) < w {
		s = "0" + s
	}
	return s
}

// renderSmart renders the wall clock of `in` in `loc` in one of the advertised smart-parse forms.
// It may adjust the instant (dropping seconds when the time form has none, etc.) and returns the adjusted instant.
func renderSmart(c *core.Ctx, r *core.Rand, in c19Inst, zoneName string) (c19Str, c19Inst) {
	var out c19Str
	// tz form decides the rendering zone
	tzForms := []string{"none", "none", "Z", "hh", "hhmm", "hh:mm", "iana"}
	out.tzForm = tzForms[r.Intn(len(tzForms))]
	var loc *time.Location
	switch out.tzForm {
	case "none":
		loc = c19Locs[zoneName] // wall clock of some zone; the string does not say which
	case "Z":
		loc = time.UTC
	case "hh":
		out.fixedOff = r.Range(-12, 14) * 3600
		loc = time.FixedZone("", out.fixedOff)
	case "hhmm", "hh:mm":
		out.fixedOff = r.Range(-12, 13)*3600 + []int{0, 0, 30, 45, 15}[r.Intn(5)]*60*map[bool]int{true: 1, false: -1}[r.Bool()]
		if out.fixedOff/3600 == 0 && out.fixedOff < 0 {
			out.fixedOff = -out.fixedOff // "-00:30" is fine for Go but keep sign handling simple
		}
		loc = time.FixedZone("", out.fixedOff)
	case "iana":
		loc = c19Locs[zoneName]
		out.zoneLoc = loc
	}
	out.hasTZ = out.tzForm != "none"

	// time form
	timeForms := []string{"", "hh:mm:ss", "hh:mm:ss.f", "hh:mm", "hhmmss", "hhmm", "hh:mm:ss PM", "hh:mm:ss.f PM", "hh:mm PM", "hh:mm:ssPM", "hh:mm:ss.fPM",
		"hh:mmPM", "hhmmss PM", "hhmm PM", "hhmmssPM", "hhmmPM"}
	out.timeForm = timeForms[r.Intn(len(timeForms))]
	if out.timeForm == "" && out.tzForm != "none" && out.tzForm != "iana" {
		out.timeForm = "hh:mm:ss" // Z / offsets only follow a time
	}
	// adjust the instant to what the form can carry
	t := time.Unix(in.sec, 0).In(loc)
	hasSec := strings.Contains(out.timeForm, "ss")
	dateOnly := out.timeForm == ""
	if !dateOnly && !hasSec {
		// the form carries no seconds: move to a whole minute of the rendering zone's wall clock. Next to a zone transition (which is
		// where many instants are placed on purpose) stepping back over the transition lands on a wall clock with other seconds again
		// (offsets with a seconds part): step forward instead, and as a last resort away from the transition.
		for try := 0; try < 8 && t.Second() != 0; try++ {
			back := t.Add(-time.Duration(t.Second()) * time.Second)
			fwd := t.Add(time.Duration(60-t.Second()) * time.Second)
			switch {
			case back.Second() == 0:
				t = back
			case fwd.Second() == 0:
				t = fwd
			default:
				t = t.Add(time.Hour)
			}
		}
	}
	in.sec = t.Unix()
	in.nano = 0
	if strings.Contains(out.timeForm, ".f") {
		out.fracDig = r.Range(1, 9)
		if strings.HasSuffix(out.timeForm, ".f PM") && out.fracDig == 4 {
			out.fracDig = 5 // go-corelib lacks "hh:mm:ss.ffff PM"
		}
		ns := r.Intn(1000000000)
		scale := 1
		for i := 0; i < 9-out.fracDig; i++ {
			scale *= 10
		}
		ns = ns / scale * scale
		in.nano = ns
		out.fracNs = ns
	}
	t = time.Unix(in.sec, int64(in.nano)).In(loc)
	y, mo, d := t.Date()
	h, mi, s := t.Clock()
	if dateOnly {
		// a date-only string carries midnight of that civil date (whether or not that wall clock exists in the zone:
		// the expectation side skips wall clocks that fall into a DST gap)
		h, mi, s = 0, 0, 0
	}
	out.wall = time.Date(y, mo, d, h, mi, s, in.nano, time.UTC)

	// date form
	dateForms := []string{"yyyy-mm-dd", "mm-dd-yyyy", "yyyy/mm/dd", "mm/dd/yyyy", "yyyymmdd"}
	if int(mo) < 10 {
		dateForms = append(dateForms, "m/dd/yyyy")
		if d < 10 {
			dateForms = append(dateForms, "m/d/yyyy")
		}
	}
	if d < 10 {
		dateForms = append(dateForms, "mm/d/yyyy")
	}
	if y >= 1969 && y <= 2068 {
		dateForms = append(dateForms, "mm/dd/yy")
	}
	out.dateForm = dateForms[r.Intn(len(dateForms))]
	var ds string
	switch out.dateForm {
	case "yyyy-mm-dd":
		ds = pad(y, 4) + "-" + pad(int(mo), 2) + "-" + pad(d, 2)
	case "mm-dd-yyyy":
		ds = pad(int(mo), 2) + "-" + pad(d, 2) + "-" + pad(y, 4)
	case "yyyy/mm/dd":
		ds = pad(y, 4) + "/" + pad(int(mo), 2) + "/" + pad(d, 2)
	case "mm/dd/yyyy":
		ds = pad(int(mo), 2) + "/" + pad(d, 2) + "/" + pad(y, 4)
	case "m/dd/yyyy":
		ds = strconv.Itoa(int(mo)) + "/" + pad(d, 2) + "/" + pad(y, 4)
	case "m/d/yyyy":
		ds = strconv.Itoa(int(mo)) + "/" + strconv.Itoa(d) + "/" + pad(y, 4)
	case "mm/d/yyyy":
		ds = pad(int(mo), 2) + "/" + strconv.Itoa(d) + "/" + pad(y, 4)
	case "mm/dd/yy":
		ds = pad(int(mo), 2) + "/" + pad(d, 2) + "/" + pad(y%100, 2)
	case "yyyymmdd":
		ds = pad(y, 4) + pad(int(mo), 2) + pad(d, 2)
	}
	// time
	ts := ""
	if out.timeForm != "" {
		h12 := h % 12
		if h12 == 0 {
			h12 = 12
		}
		ampm := "AM"
		if h >= 12 {
			ampm = "PM"
		}
		if r.Chance(1, 6) {
			// lower case am/pm is not advertised; keep upper
		}
		frac := ""
		if out.fracDig > 0 {
			frac = "." + pad(in.nano, 9)[:out.fracDig]
		}
		switch out.timeForm {
		case "hh:mm:ss":
			ts = pad(h, 2) + ":" + pad(mi, 2) + ":" + pad(s, 2)
		case "hh:mm:ss.f":
			ts = pad(h, 2) + ":" + pad(mi, 2) + ":" + pad(s, 2) + frac
		case "hh:mm":
			ts = pad(h, 2) + ":" + pad(mi, 2)
		case "hhmmss":
			ts = pad(h, 2) + pad(mi, 2) + pad(s, 2)
		case "hhmm":
			ts = pad(h, 2) + pad(mi, 2)
		case "hh:mm:ss PM":
			ts = pad(h12, 2) + ":" + pad(mi, 2) + ":" + pad(s, 2) + " " + ampm
		case "hh:mm:ss.f PM":
			ts = pad(h12, 2) + ":" + pad(mi, 2) + ":" + pad(s, 2) + frac + " " + ampm
		case "hh:mm PM":
			ts = pad(h12, 2) + ":" + pad(mi, 2) + " " + ampm
		case "hh:mm:ssPM":
			ts = pad(h12, 2) + ":" + pad(mi, 2) + ":" + pad(s, 2) + ampm
		case "hh:mm:ss.fPM":
			ts = pad(h12, 2) + ":" + pad(mi, 2) + ":" + pad(s, 2) + frac + ampm
		case "hh:mmPM":
			ts = pad(h12, 2) + ":" + pad(mi, 2) + ampm
		case "hhmmss PM":
			ts = pad(h12, 2) + pad(mi, 2) + pad(s, 2) + " " + ampm
		case "hhmm PM":
			ts = pad(h12, 2) + pad(mi, 2) + " " + ampm
		case "hhmmssPM":
			ts = pad(h12, 2) + pad(mi, 2) + pad(s, 2) + ampm
		case "hhmmPM":
			ts = pad(h12, 2) + pad(mi, 2) + ampm
		}
		delim := []string{"T", " "}[r.Intn(2)]
		if out.dateForm == "yyyymmdd" && r.Chance(1, 3) {
			delim = ""
		}
		ts = delim + ts
	}
	// tz suffix
	suf := ""
	abs := out.fixedOff
	sign := "+"
	if abs < 0 {
		abs = -abs
		sign = "-"
	}
	sp := ""
	if r.Chance(1, 3) {
		sp = " "
	}
	switch out.tzForm {
	case "Z":
		suf = "Z"
	case "hh":
		suf = sp + sign + pad(abs/3600, 2)
	case "hhmm":
		suf = sp + sign + pad(abs/3600, 2) + pad(abs%3600/60, 2)
	case "hh:mm":
		suf = sp + sign + pad(abs/3600, 2) + ":" + pad(abs%3600/60, 2)
	case "iana":
		suf = "-" + zoneName
	}
	out.s = ds + ts + suf
	if r.Chance(1, 10) {
		out.s = " " + out.s + "  " // documented: input is trimmed
	}
	return out, in
}

// wallInstants returns every unix second whose wall clock in loc equals the given wall fields (0, 1 or 2 values).
func wallInstants(wall time.Time, loc *time.Location) []int64 {
	base := wall.Unix() // wall as if UTC
	seen := map[int64]bool{}
	var res []int64
	guess := time.Date(wall.Year(), wall.Month(), wall.Day(), wall.Hour(), wall.Minute(), wall.Second(), 0, loc).Unix()
	for _, probe := range []int64{guess, guess - 86400, guess + 86400, guess - 7200, guess + 7200} {
		_, off := time.Unix(probe, 0).In(loc).Zone()
		u := base - int64(off)
		if seen[u] {
			continue
		}
		tt := time.Unix(u, 0).In(loc)
		if tt.Year() == wall.Year() && tt.Month() == wall.Month() && tt.Day() == wall.Day() && tt.Hour() == wall.Hour() && tt.Minute() == wall.Minute() && tt.Second() == wall.Second() {
			seen[u] = true
			res = append(res, u)
		}
	}
	return res
}

const rfcNoTZ = "2006-01-02T15:04:05"

// checkRFC3339Out verifies an output string against acceptable instants shown in target zone.
// accept: acceptable unix seconds; target: zone the output must be expressed in.
func checkRFC3339Out(out string, accept []int64, target *time.Location) string {
	pt, err := time.Parse(time.RFC3339, out)
	if err != nil {
		return "output is not RFC3339: " + err.Error()
	}
	_, gotOff := pt.Zone()
	var why string
	for _, u := range accept {
		exp := time.Unix(u, 0).In(target)
		_, off := exp.Zone()
		// Go renders offsets truncated to the minute; compare wall clock and minute-truncated offset, which is instant equality
		// whenever the offset is a whole number of minutes.
		wantOff := off / 60 * 60
		if gotOff == wantOff && pt.Year() == exp.Year() && pt.YearDay() == exp.YearDay() && pt.Hour() == exp.Hour() && pt.Minute() == exp.Minute() && pt.Second() == exp.Second() {
			return ""
		}
		why = fmt.Sprintf("expected %s (offset %ds)", exp.Format(time.RFC3339), off)
	}
	return "got " + out + ", " + why
}

func runC19(c *core.Ctx) {
	c19ZonesOnce.Do(loadC19Zones)
	if len(c19Zones) < 300 || len(c19SufZones) < 200 {
		c.Inconclusive(fmt.Sprintf("only %d loadable zones / %d suffix zones found", len(c19Zones), len(c19SufZones)))
		return
	}
	r := c.R
	for i := 0; i < 200; i++ {
		c.Inc("calls")
		c.Inc("evaluations")
		switch k := r.Intn(20); {
		case k < 8:
			c19ToRFC3339(c, r.Fork())
		case k < 12:
			c19ToEpoch(c, r.Fork())
		case k < 15:
			c19FromEpoch(c, r.Fork())
		case k < 18:
			c19Layout(c, r.Fork())
		default:
			c19ErrorSide(c, r.Fork())
		}
	}
	if c.Idx < 2 {
		c.Sample(map[string]interface{}{"zones_loadable": len(c19Zones), "zones_accepted_as_suffix": len(c19SufZones)})
	}
}

func optZone(c *core.Ctx, r *core.Rand) string {
	if r.Bool() {
		return ""
	}
	return c19PickZone(c, r, false)
}

func c19Violate(c *core.Ctx, kind, fn string, args []string, out string, err error, why string) {
	es := ""
	if err != nil {
		es = err.Error()
	}
	c.Violate("C19:"+kind, fn+": "+why, map[string]interface{}{"function": fn, "args": args, "returned": out, "error": es, "why": why})
}

func c19ToRFC3339(c *core.Ctx, r *core.Rand) {
	c.Inc("fn:dateTimeToRFC3339")
	zone := c19PickZone(c, r, true)
	in := c19Instant(c, r, c19Locs[zone])
	str, in := renderSmart(c, r, in, zone)
	fromTZ, toTZ := optZone(c, r), optZone(c, r)
	if r.Chance(1, 4) {
		if r.Bool() {
			customfuncs.DateTimeToRFC3339(nil, str.s, c19PickZone(c, r, false), toTZ)
		} else {
			customfuncs.DateTimeToRFC3339(nil, str.s, fromTZ, c19PickZone(c, r, false))
		}
		c.Inc("checked_call_preceded_by_a_call_differing_in_one_argument")
	}
	out, err := customfuncs.DateTimeToRFC3339(nil, str.s, fromTZ, toTZ)
	args := []string{str.s, fromTZ, toTZ}
	c19Observe(c, "dateTimeToRFC3339", str, fromTZ, toTZ, zone, in)
	if err != nil {
		c19Violate(c, "smart-parse-rejected:"+str.dateForm+"|"+str.timeForm+"|"+str.tzForm, "dateTimeToRFC3339", args, out, err, "advertised layout was rejected")
		return
	}
	if why := c19Expect(str, in, fromTZ, toTZ, out); why != "" {
		c19Violate(c, "rfc3339:"+c19Class(str, fromTZ, toTZ), "dateTimeToRFC3339", args, out, nil, why)
	}
	if c.Idx < 3 && r.Chance(1, 40) {
		c.Sample(map[string]interface{}{"fn": "dateTimeToRFC3339", "args": args, "returned": out, "instant_unix": in.sec})
	}
}

func c19Class(str c19Str, fromTZ, toTZ string) string {
	s := "tz=" + str.tzForm
	if fromTZ != "" {
		s += ",from"
	}
	if toTZ != "" {
		s += ",to"
	}
	return s
}

func c19Observe(c *core.Ctx, fn string, str c19Str, fromTZ, toTZ, zone string, in c19Inst) {
	c.Inc("dateform:" + str.dateForm)
	tf := str.timeForm
	if tf == "" {
		tf = "(date only)"
	}
	c.Inc("timeform:" + tf)
	c.Inc("tzform:" + str.tzForm)
	if str.fracDig > 0 {
		c.Inc("fraction_digits:" + strconv.Itoa(str.fracDig))
	}
	if in.dst {
		c.Inc("dst_adjacent")
	}
	y := time.Unix(in.sec, 0).UTC().Year()
	c.Inc(fmt.Sprintf("year:%dxxx", y/1000))
	c.Distinct(fn, str.dateForm, str.timeForm, str.tzForm, strconv.FormatBool(fromTZ != ""), strconv.FormatBool(toTZ != ""), zone, strconv.Itoa(y/100))
}

// c19Expect checks `out` of a to-RFC3339 call.
func c19Expect(str c19Str, in c19Inst, fromTZ, toTZ string, out string) string {
	if !str.hasTZ && fromTZ == "" && toTZ == "" {
		want := str.wall.Format(rfcNoTZ)
		if out != want {
			return "no zone involved: wall clock must be preserved; got " + out + ", expected " + want
		}
		return ""
	}
	var accept []int64
	var natural *time.Location
	switch {
	case str.hasTZ && str.zoneLoc != nil:
		accept = wallInstants(str.wall, str.zoneLoc)
		natural = str.zoneLoc
	case str.hasTZ:
		accept = []int64{str.wall.Unix() - int64(str.fixedOff)}
		natural = time.FixedZone("", str.fixedOff)
	case fromTZ != "":
		natural = c19Locs[fromTZ]
		accept = wallInstants(str.wall, natural)
	default: // no tz in string, no fromTZ, toTZ set: wall clock is bound to toTZ
		natural = c19Locs[toTZ]
		accept = wallInstants(str.wall, natural)
		if len(accept) == 0 {
			return "" // wall clock does not exist in toTZ (DST gap): unspecified
		}
	}
	if len(accept) == 0 {
		return "" // the rendered wall clock does not exist in fromTZ (DST gap): unspecified
	}
	target := natural
	if toTZ != "" {
		target = c19Locs[toTZ]
	}
	return checkRFC3339Out(out, accept, target)
}

func c19ToEpoch(c *core.Ctx, r *core.Rand) {
	c.Inc("fn:dateTimeToEpoch")
	zone := c19PickZone(c, r, true)
	in := c19Instant(c, r, c19Locs[zone])
	str, in := renderSmart(c, r, in, zone)
	fromTZ := optZone(c, r)
	unit := r.Pick("SECOND", "MILLISECOND")
	if r.Chance(1, 4) {
		if r.Bool() {
			customfuncs.DateTimeToEpoch(nil, str.s, c19PickZone(c, r, false), unit)
		} else {
			customfuncs.DateTimeToEpoch(nil, str.s, fromTZ, map[string]string{"SECOND": "MILLISECOND", "MILLISECOND": "SECOND"}[unit])
		}
		c.Inc("checked_call_preceded_by_a_call_differing_in_one_argument")
	}
	out, err := customfuncs.DateTimeToEpoch(nil, str.s, fromTZ, unit)
	args := []string{str.s, fromTZ, unit}
	c19Observe(c, "dateTimeToEpoch/"+unit, str, fromTZ, "", zone, in)
	c.Inc("unit:" + unit)
	if err != nil {
		c19Violate(c, "smart-parse-rejected:"+str.dateForm+"|"+str.timeForm+"|"+str.tzForm, "dateTimeToEpoch", args, out, err, "advertised layout was rejected")
		return
	}
	got, perr := strconv.ParseInt(out, 10, 64)
	if perr != nil {
		c19Violate(c, "epoch-not-integer", "dateTimeToEpoch", args, out, nil, "result is not an integer")
		return
	}
	var accept []int64
	switch {
	case str.hasTZ && str.zoneLoc != nil:
		accept = wallInstants(str.wall, str.zoneLoc)
	case str.hasTZ:
		accept = []int64{str.wall.Unix() - int64(str.fixedOff)}
	case fromTZ != "":
		accept = wallInstants(str.wall, c19Locs[fromTZ])
		if len(accept) == 0 {
			return
		}
	default:
		accept = []int64{str.wall.Unix()}
	}
	if len(accept) == 0 {
		c.Inc("skipped_wall_clock_in_dst_gap")
		return // the wall clock does not exist in the zone it is bound to: unspecified
	}
	ok := false
	var want []int64
	for _, u := range accept {
		if unit == "SECOND" {
			want = append(want, u)
		} else {
			ms := int64(str.fracNs / 1000000)
			want = append(want, u*1000+ms)
			if str.fracNs%1000000 != 0 && u < 0 {
				want = append(want, u*1000+ms+1) // truncation toward zero of a negative value with sub-ms digits
			}
		}
	}
	for _, w := range want {
		if got == w {
			ok = true
		}
	}
	if !ok {
		era := c19Era(accept[0])
		c19Violate(c, "epoch:"+unit+":"+era, "dateTimeToEpoch", args, out, nil, fmt.Sprintf("expected one of %v", want))
	}
	if c.Idx < 3 && r.Chance(1, 40) {
		c.Sample(map[string]interface{}{"fn": "dateTimeToEpoch", "args": args, "returned": out})
	}
}

func c19FromEpoch(c *core.Ctx, r *core.Rand) {
	c.Inc("fn:epochToDateTimeRFC3339")
	tz := optZone(c, r)
	loc := time.UTC
	if tz != "" {
		loc = c19Locs[tz]
	}
	in := c19Instant(c, r, loc)
	unit := r.Pick("SECOND", "MILLISECOND")
	c.Inc("unit:" + unit)
	n := in.sec
	ms := int64(0)
	if unit == "MILLISECOND" {
		ms = int64(r.Intn(1000))
		n = in.sec*1000 + ms
	}
	epoch := strconv.FormatInt(n, 10)
	var out string
	var err error
	if tz == "" && r.Bool() {
		out, err = customfuncs.EpochToDateTimeRFC3339(nil, epoch, unit)
	} else {
		if tz == "" {
			tz = "UTC"
		}
		out, err = customfuncs.EpochToDateTimeRFC3339(nil, epoch, unit, tz)
	}
	args := []string{epoch, unit, tz}
	if in.dst {
		c.Inc("dst_adjacent")
	}
	y := time.Unix(in.sec, 0).UTC().Year()
	c.Inc(fmt.Sprintf("year:%dxxx", y/1000))
	c.Distinct("epochToDateTimeRFC3339", unit, tz, strconv.Itoa(y/100))
	era := c19Era(in.sec)
	if err != nil {
		c19Violate(c, "fromepoch-error", "epochToDateTimeRFC3339", args, out, err, "valid epoch rejected")
		return
	}
	if why := checkRFC3339Out(out, []int64{in.sec}, loc); why != "" {
		c19Violate(c, "fromepoch:"+unit+":"+era, "epochToDateTimeRFC3339", args, out, nil, why)
		return
	}
	// inverse: dateTimeToEpoch(epochToDateTimeRFC3339(n)) == n at second resolution (only when the offset is whole minutes)
	_, off := time.Unix(in.sec, 0).In(loc).Zone()
	if off%60 == 0 {
		back, err2 := customfuncs.DateTimeToEpoch(nil, out, "", unit)
		want := n
		if unit == "MILLISECOND" {
			want = in.sec * 1000
		}
		c.Inc("roundtrips")
		if err2 != nil || back != strconv.FormatInt(want, 10) {
			c19Violate(c, "roundtrip:"+unit+":"+era, "dateTimeToEpoch∘epochToDateTimeRFC3339", append(args, out), back, err2, fmt.Sprintf("expected %d", want))
		}
	}
	if c.Idx < 3 && r.Chance(1, 40) {
		c.Sample(map[string]interface{}{"fn": "epochToDateTimeRFC3339", "args": args, "returned": out})
	}
}

// c19Era tells whether an instant is representable as int64 nanoseconds since 1970 with a one-second margin
// (the boundary seconds themselves overflow once a fraction is added).
func c19Era(sec int64) string {
	if sec <= -9223372036 || sec >= 9223372036 {
		return "outside-1678-2262"
	}
	return "in-int64ns-range"
}

type c19Lay struct {
	layout string
	tz     bool
	year2  bool
	noSec  bool
	date   bool // date only
}

var c19Layouts = []c19Lay{
	{layout: "2006-01-02 15:04:05"},
	{layout: "2006-01-02T15:04:05Z07:00", tz: true},
	{layout: time.RFC1123Z, tz: true},
	{layout: time.RFC822Z, tz: true, year2: true, noSec: true},
	{layout: "2006-01-02 15:04:05 -0700", tz: true},
	{layout: "02/01/2006 15:04:05 -07:00", tz: true},
	{layout: time.ANSIC},
	{layout: "Jan 2, 2006 at 3:04pm", noSec: true},
	{layout: "20060102150405"},
	{layout: "2006.01.02", date: true},
	{layout: "02 Jan 06 15:04", year2: true, noSec: true},
	{layout: "Monday, 02-Jan-2006 15:04:05"},
	{layout: "2006-01-02T15:04:05.000", },
	{layout: "1/2/2006 3:04:05 PM"},
	{layout: time.RFC3339Nano, tz: true},
}

func c19Layout(c *core.Ctx, r *core.Rand) {
	c.Inc("fn:dateTimeLayoutToRFC3339")
	zone := c19PickZone(c, r, false)
	loc := c19Locs[zone]
	in := c19Instant(c, r, loc)
	lay := c19Layouts[r.Intn(len(c19Layouts))]
	var t time.Time
	str := c19Str{}
	if lay.tz {
		str.fixedOff = r.Range(-12, 13)*3600 + []int{0, 0, 30, 45}[r.Intn(4)]*60
		if str.fixedOff < 0 && str.fixedOff > -3600 {
			str.fixedOff = -str.fixedOff
		}
		t = time.Unix(in.sec, 0).In(time.FixedZone("", str.fixedOff))
		str.hasTZ = true
		str.tzForm = "layout-offset"
	} else {
		t = time.Unix(in.sec, 0).In(loc)
		str.tzForm = "none"
	}
	if lay.year2 && (t.Year() < 1969 || t.Year() > 2068) {
		in.sec = r.Int63n(3000000000)
		t = time.Unix(in.sec, 0).In(t.Location())
	}
	// the wall clock the string carries, as a UTC-located value (formatting it never depends on a zone database)
	str.wall = time.Date(t.Year(), t.Month(), t.Day(), t.Hour(), t.Minute(), t.Second(), 0, time.UTC)
	if lay.date {
		str.wall = time.Date(t.Year(), t.Month(), t.Day(), 0, 0, 0, 0, time.UTC)
	} else if lay.noSec {
		str.wall = str.wall.Add(-time.Duration(t.Second()) * time.Second)
	}
	if lay.tz {
		str.s = str.wall.In(time.UTC).Add(-time.Duration(str.fixedOff) * time.Second).In(time.FixedZone("", str.fixedOff)).Format(lay.layout)
	} else {
		str.s = str.wall.Format(lay.layout)
	}
	str.dateForm, str.timeForm = "layout:"+lay.layout, "layout"
	fromTZ, toTZ := optZone(c, r), optZone(c, r)
	layoutTZ := strconv.FormatBool(lay.tz)
	if !lay.tz && r.Chance(1, 4) {
		layoutTZ = "" // documented default
	}
	if r.Chance(1, 3) {
		// a preceding call that differs in one argument only: its result is discarded, it must not influence the checked call
		switch r.Intn(3) {
		case 0:
			customfuncs.DateTimeLayoutToRFC3339(nil, str.s, lay.layout, strconv.FormatBool(!lay.tz), fromTZ, toTZ)
		case 1:
			customfuncs.DateTimeLayoutToRFC3339(nil, str.s, lay.layout, layoutTZ, c19PickZone(c, r, false), toTZ)
		default:
			customfuncs.DateTimeLayoutToRFC3339(nil, str.s, lay.layout, layoutTZ, fromTZ, c19PickZone(c, r, false))
		}
		c.Inc("checked_call_preceded_by_a_call_differing_in_one_argument")
	}
	out, err := customfuncs.DateTimeLayoutToRFC3339(nil, str.s, lay.layout, layoutTZ, fromTZ, toTZ)
	args := []string{str.s, lay.layout, layoutTZ, fromTZ, toTZ}
	c.Inc("layout:" + lay.layout)
	if in.dst {
		c.Inc("dst_adjacent")
	}
	c.Distinct("dateTimeLayoutToRFC3339", lay.layout, strconv.FormatBool(fromTZ != ""), strconv.FormatBool(toTZ != ""), zone)
	if err != nil {
		c19Violate(c, "layout-rejected:"+lay.layout, "dateTimeLayoutToRFC3339", args, out, err, "input formatted with the layout was rejected")
		return
	}
	if why := c19Expect(str, in, fromTZ, toTZ, out); why != "" {
		c19Violate(c, "layout:"+c19Class(str, fromTZ, toTZ), "dateTimeLayoutToRFC3339", args, out, nil, why)
	}
}

func c19ErrorSide(c *core.Ctx, r *core.Rand) {
	c.Inc("errorside")
	// empty input -> empty output, no error
	if r.Chance(1, 5) {
		fromTZ, toTZ := optZone(c, r), optZone(c, r)
		var out string
		var err error
		var fn string
		switch r.Intn(4) {
		case 0:
			fn = "dateTimeToRFC3339"
			out, err = customfuncs.DateTimeToRFC3339(nil, "", fromTZ, toTZ)
		case 1:
			fn = "dateTimeLayoutToRFC3339"
			out, err = customfuncs.DateTimeLayoutToRFC3339(nil, "", "2006-01-02", "false", fromTZ, toTZ)
		case 2:
			fn = "dateTimeToEpoch"
			out, err = customfuncs.DateTimeToEpoch(nil, "", fromTZ, "SECOND")
		case 3:
			fn = "epochToDateTimeRFC3339"
			out, err = customfuncs.EpochToDateTimeRFC3339(nil, "", "SECOND")
		}
		c.Inc("empty_input")
		if out != "" || err != nil {
			c19Violate(c, "empty-input:"+fn, fn, []string{""}, out, err, "empty input must yield empty output and no error")
		}
		return
	}
	// strings that no advertised layout can represent
	y := r.Range(1, 9999)
	bad := []string{
		fmt.Sprintf("%04d-13-%02d", y, r.Range(1, 28)),
		fmt.Sprintf("%04d-%02d-32", y, r.Range(1, 12)),
		fmt.Sprintf("%04d-02-30T10:00:00", y),
		fmt.Sprintf("%04d-04-31", y),
		fmt.Sprintf("%04d-%02d-%02dT25:00:00", y, r.Range(1, 12), r.Range(1, 28)),
		fmt.Sprintf("%04d-%02d-%02dT10:61:00", y, r.Range(1, 12), r.Range(1, 28)),
		fmt.Sprintf("%04d-%02d-%02dT10:00:00 garbage", y, r.Range(1, 12), r.Range(1, 28)),
		fmt.Sprintf("%04d-%02d-%02dT10:00:00+", y, r.Range(1, 12), r.Range(1, 28)),
		fmt.Sprintf("13/%02d/%04d", r.Range(1, 28), y),
		fmt.Sprintf("%02d/32/%04d 10:00 PM", r.Range(1, 12), y),
		fmt.Sprintf("%04d-%02d-%02dT13:00:00 PM", y, r.Range(1, 12), r.Range(1, 28)),
		fmt.Sprintf("%04d%02d32", y, r.Range(1, 12)),
		fmt.Sprintf("%04d-%02d-%02dT10:00:00-Mars/Olympus", y, r.Range(1, 12), r.Range(1, 28)),
		"not a date", "12", "2020-01", "T10:00:00", "--", "2020-01-02T", "١٢/٠٣/٢٠٢٠",
	}
	// Feb 29 on a non-leap year
	ny := y
	for ny%4 == 0 {
		ny++
	}
	if ny <= 9999 {
		bad = append(bad, fmt.Sprintf("%04d-02-29", ny), fmt.Sprintf("02/29/%04d 11:00:00", ny))
	}
	// a day the month does not have, in every spelling of the time of day / zone the smart parser advertises
	{
		md := [][2]int{{2, 30}, {2, 31}, {4, 31}, {6, 31}, {9, 31}, {11, 31}}
		if y%4 != 0 || (y%100 == 0 && y%400 != 0) {
			md = append(md, [2]int{2, 29}, [2]int{2, 29})
		}
		p := md[r.Intn(len(md))]
		tod := r.Pick("", "T10:00:00", "T10:00:00Z", "T23:59:59Z", "T00:00:00Z", "T10:00:00+02:00", "T10:00:00-0700", " 10:00:00", "T10:00:00.123Z", "T12:34:56Z")
		for i := 0; i < 3; i++ {
			bad = append(bad, fmt.Sprintf("%04d-%02d-%02d%s", y, p[0], p[1], tod))
		}
	}
	s := bad[r.Intn(len(bad))]
	fromTZ, toTZ := optZone(c, r), optZone(c, r)
	c.Inc("unparsable_input")
	out, err := customfuncs.DateTimeToRFC3339(nil, s, fromTZ, toTZ)
	if err == nil {
		c19Violate(c, "unparsable-accepted:rfc3339", "dateTimeToRFC3339", []string{s, fromTZ, toTZ}, out, nil, "unparsable input must yield an error, not a time")
	}
	out, err = customfuncs.DateTimeToEpoch(nil, s, fromTZ, "SECOND")
	if err == nil {
		c19Violate(c, "unparsable-accepted:epoch", "dateTimeToEpoch", []string{s, fromTZ, "SECOND"}, out, nil, "unparsable input must yield an error, not a time")
	}
	// unknown zone / unit / non-numeric epoch must be errors too
	switch r.Intn(3) {
	case 0:
		if o, e := customfuncs.DateTimeToRFC3339(nil, "2020-01-02T03:04:05", "Mars/Olympus", ""); e == nil {
			c19Violate(c, "bad-zone-accepted", "dateTimeToRFC3339", []string{"2020-01-02T03:04:05", "Mars/Olympus", ""}, o, nil, "unknown zone accepted")
		}
	case 1:
		if o, e := customfuncs.DateTimeToEpoch(nil, "2020-01-02T03:04:05", "", "MINUTE"); e == nil {
			c19Violate(c, "bad-unit-accepted", "dateTimeToEpoch", []string{"2020-01-02T03:04:05", "", "MINUTE"}, o, nil, "unknown unit accepted")
		}
	case 2:
		if o, e := customfuncs.EpochToDateTimeRFC3339(nil, "12x", "SECOND"); e == nil {
			c19Violate(c, "bad-epoch-accepted", "epochToDateTimeRFC3339", []string{"12x", "SECOND"}, o, nil, "non-numeric epoch accepted")
		}
	}
}
