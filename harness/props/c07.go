package props

import (
	"encoding/json"
	"fmt"
	"io"
	"strings"

	"github.com/jf-tech/omniparser/extensions/omniv21/fileformat/edi"
	"github.com/jf-tech/omniparser/idr"
	"github.com/jf-tech/omniparser/transformctx"

	"verif/harness/core"
	"verif/harness/mon"
	"verif/harness/omni"
)

// C07 — EDI segments are tokenized exactly at unescaped delimiters.

func init() {
	core.Register(&core.Prop{
		ID:    "C07",
		Level: "exploration",
		Rule: "each case = one delimiter configuration (segment / element / optional component / repetition delimiters, single byte, newline, CRLF, multi-byte rune " +
			"or two runes; optional release character; ignore_crlf) x 30 logical segments (elements -> repetitions -> components; empty and trailing-empty " +
			"elements, values made only of delimiter and release runes, multi-byte runes, segments of ~128 B, ~4 KiB and up to 60 KiB) rendered by the " +
			"harness's own escaper. Level 1: edi.NonValidatingReader must yield exactly the (element, component) grid with the escaped bytes. Level 2: through a " +
			"schema declaring elements by index / component_index (present, beyond the segment, duplicated declarations) with default / empty_if_missing / " +
			"neither, element nodes must carry the unescaped logical strings, one node per repetition, and a declared-but-absent element must be fatal unless " +
			"a default exists. CR/LF rules exercised with formatting newlines anywhere (ignore_crlf) and CRLF line ends (newline delimiter). " +
			"A third of the inputs leave the last segment unterminated (half of those end in a released delimiter or release character). " +
			"distinct = digest(configuration, input); non-trivial = an escaped delimiter occurs inside a value or a delimiter is multi-byte.",
		Assumptions: []string{
			"delimiters are pairwise distinct and none is a substring of another (otherwise the format itself is ambiguous)",
			"lone release characters at the end of a value and invalid UTF-8 are outside 'escaped delimiters' and not generated",
			"without a release character payloads avoid delimiter runes",
		},
		Cases: func(t core.Tier) int {
			if t == core.Thorough {
				return 40000
			}
			return 1000
		},
		Run: runC07,
		Min: func(t core.Tier) map[string]int64 {
			return map[string]int64{"segments_compared": 20000, "components_compared": 80000, "payload:escaped-delimiter-inside": 5000, "payload:trailing-empty-element": 1000,
				"config:multi-byte-delimiter": 100, "config:newline-segment-delimiter": 50, "config:ignore_crlf": 100, "missing:fatal": 200, "missing:default": 200,
				"segments_over_128_bytes": 300, "segments_over_4096_bytes": 30}
		},
	})
}

type c07Config struct {
	seg, elem, comp, rep, rel string
	ignoreCRLF              bool
	openEnd                 bool // the last segment is not terminated by a segment delimiter (the end of the input terminates it)
}

func (cf c07Config) delims() []string {
	ds := []string{cf.seg, cf.elem}
	if cf.comp != "" {
		ds = append(ds, cf.comp)
	}
	if cf.rep != "" {
		ds = append(ds, cf.rep)
	}
	return ds
}

func (cf c07Config) String() string {
	return fmt.Sprintf("seg=%q elem=%q comp=%q rep=%q release=%q ignore_crlf=%v", cf.seg, cf.elem, cf.comp, cf.rep, cf.rel, cf.ignoreCRLF)
}

func genC07Config(r *core.Rand) c07Config {
	pool := []string{"~", "*", ":", "^", "|", "+", "'", "!", "§", "→", "¦", "||", "<>", "#", "$", "::", "%"}
	for {
		var cf c07Config
		p := r.Perm(len(pool))
		pick := func(i int) string { return pool[p[i]] }
		cf.seg, cf.elem = pick(0), pick(1)
		switch r.Intn(8) {
		case 0:
			cf.seg = "\n"
		case 1:
			cf.seg = "\r\n"
		}
		if r.Chance(2, 3) {
			cf.comp = pick(2)
		}
		if r.Chance(1, 2) {
			cf.rep = pick(3)
		}
		if r.Chance(2, 3) {
			cf.rel = r.Pick("?", "\\", "?", "¿", "/")
		}
		cf.ignoreCRLF = !strings.ContainsAny(cf.seg, "\r\n") && r.Chance(1, 3)
		// pairwise distinct, no delimiter a substring of another, release not part of any delimiter
		all := append(cf.delims(), cf.rel)
		ok := true
		for i := range all {
			for j := range all {
				if i != j && all[i] != "" && all[j] != "" && strings.Contains(all[i], all[j]) {
					ok = false
				}
			}
		}
		if ok {
			return cf
		}
	}
}

type c07Seg struct {
	name  string
	elems [][][]string // element -> repetition -> component
}

func (cf c07Config) special(c rune) bool {
	if cf.rel != "" && strings.ContainsRune(cf.rel, c) {
		return true
	}
	for _, d := range cf.delims() {
		if strings.ContainsRune(d, c) {
			return true
		}
	}
	return false
}

func (cf c07Config) genValue(c *core.Ctx, r *core.Rand, maxLen int) string {
	if r.Chance(1, 5) {
		return ""
	}
	n := r.Range(1, maxLen)
	var specials []rune
	for _, d := range append(cf.delims(), cf.rel) {
		specials = append(specials, []rune(d)...)
	}
	base := []rune("abcXYZ0189 .-_éß中😀\ufffd") // U+FFFD is a character like any other
	var sb strings.Builder
	onlySpecial := r.Chance(1, 10)
	for i := 0; i < n; i++ {
		var x rune
		if cf.rel != "" && (onlySpecial || r.Chance(1, 5)) && len(specials) > 0 {
			x = specials[r.Intn(len(specials))]
		} else {
			x = base[r.Intn(len(base))]
		}
		if x == '\r' || x == '\n' {
			x = '_' // values never carry CR/LF: with ignore_crlf they would be dropped, with a newline delimiter they are delimiters
		}
		if cf.rel == "" && cf.special(x) {
			x = '_'
		}
		sb.WriteRune(x)
	}
	return sb.String()
}

func (cf c07Config) escape(s string) string {
	if cf.rel == "" {
		return s
	}
	var sb strings.Builder
	for _, x := range s {
		if cf.special(x) {
			sb.WriteString(cf.rel)
		}
		sb.WriteRune(x)
	}
	return sb.String()
}

// unescape is the harness's own inverse of escape.
func (cf c07Config) unescape(s string) string {
	if cf.rel == "" {
		return s
	}
	var sb strings.Builder
	rs := []rune(s)
	rel := []rune(cf.rel)
	for i := 0; i < len(rs); i++ {
		if i+len(rel) <= len(rs) && string(rs[i:i+len(rel)]) == cf.rel && i+len(rel) < len(rs) {
			i += len(rel)
			sb.WriteRune(rs[i])
			continue
		}
		sb.WriteRune(rs[i])
	}
	return sb.String()
}

func (cf c07Config) render(r *core.Rand, segs []c07Seg, c *core.Ctx) string {
	var sb strings.Builder
	nlNoise := func() {
		if cf.ignoreCRLF && r.Chance(1, 6) {
			sb.WriteString(r.Pick("\n", "\r\n", "\r"))
		}
	}
	for si, s := range segs {
		sb.WriteString(s.name)
		for _, el := range s.elems {
			nlNoise()
			sb.WriteString(cf.elem)
			for ri, rp := range el {
				if ri > 0 {
					sb.WriteString(cf.rep)
				}
				for ci, cm := range rp {
					if ci > 0 {
						sb.WriteString(cf.comp)
					}
					nlNoise()
					sb.WriteString(cf.escape(cm))
				}
			}
		}
		if cf.openEnd && si == len(segs)-1 {
			break
		}
		if cf.seg == "\n" && r.Chance(1, 3) {
			sb.WriteString("\r") // CRLF line ends with a newline segment delimiter: the CR is dropped
			c.Inc("crlf_line_ends_with_newline_delimiter")
		}
		sb.WriteString(cf.seg)
		if cf.ignoreCRLF && r.Chance(1, 2) {
			sb.WriteString(r.Pick("\n", "\r\n"))
		}
		if strings.ContainsAny(cf.seg, "\n") && r.Chance(1, 8) {
			sb.WriteString(cf.seg) // blank line: a token of only CR/LF is skipped
			c.Inc("blank_line_tokens")
		}
		if !cf.ignoreCRLF && !strings.ContainsAny(cf.seg, "\r\n") && si == len(segs)-1 && r.Chance(1, 2) {
			sb.WriteString(r.Pick("\n", "\r\n")) // trailing newline at the very end of the input
		}
	}
	return sb.String()
}

func runC07(c *core.Ctx) {
	r := c.R
	cf := genC07Config(r)
	if len(cf.seg) > 1 || len(cf.elem) > 1 || len(cf.comp) > 1 || len(cf.rep) > 1 {
		c.Inc("config:multi-byte-delimiter")
	}
	if strings.Contains(cf.seg, "\n") {
		c.Inc("config:newline-segment-delimiter")
	}
	if cf.ignoreCRLF {
		c.Inc("config:ignore_crlf")
	}
	if cf.rel != "" {
		c.Inc("config:release-character")
	}
	// element declarations of the schema-level check
	type elemDecl struct {
		name      string
		index     int
		comp      int
		def       *string
		emptyMiss bool
	}
	var decls []elemDecl
	nd := r.Range(1, 7)
	for i := 0; i < nd; i++ {
		d := elemDecl{name: fmt.Sprintf("e%d", i), index: r.Range(1, 5), comp: 0}
		if r.Chance(1, 2) {
			d.comp = r.Range(1, 3)
		}
		switch r.Intn(4) {
		case 0:
			v := r.Pick("DEF", "", "d:e*f")
			d.def = &v
		case 1:
			d.emptyMiss = true
		}
		if i > 0 && r.Chance(1, 6) {
			d.index, d.comp = decls[0].index, decls[0].comp // duplicated declaration of the same element under another name
			c.Inc("duplicated_element_declarations")
		}
		decls = append(decls, d)
	}
	nseg := 30
	var segs []c07Seg
	nontrivial := len(cf.seg) > 1 || len(cf.elem) > 1
	for i := 0; i < nseg; i++ {
		s := c07Seg{name: "SEG"}
		ne := r.Range(0, 6)
		big := 0
		switch {
		case r.Chance(1, 12):
			big = r.Range(100, 160)
		case r.Chance(1, 60):
			big = r.Range(4000, 4200)
		case r.Chance(1, 200):
			big = r.Range(8000, 11000)
		}
		for e := 0; e < ne; e++ {
			nrep := 1
			if cf.rep != "" && r.Chance(1, 4) {
				nrep = r.Range(2, 3)
			}
			var reps [][]string
			for k := 0; k < nrep; k++ {
				ncomp := 1
				if cf.comp != "" && r.Chance(1, 3) {
					ncomp = r.Range(2, 4)
				}
				var comps []string
				for j := 0; j < ncomp; j++ {
					ml := 6
					if big > 0 && e == 0 && k == 0 && j == 0 {
						ml = big
					}
					v := cf.genValue(c, r, ml)
					if big > 0 && e == 0 && k == 0 && j == 0 {
						for len(v) < big {
							v += cf.genValue(c, r, 40) + "x"
						}
					}
					for _, x := range v {
						if cf.special(x) {
							c.Inc("payload:escaped-delimiter-inside")
							nontrivial = true
							break
						}
					}
					comps = append(comps, v)
				}
				reps = append(reps, comps)
			}
			s.elems = append(s.elems, reps)
		}
		if ne > 0 && len(s.elems[ne-1]) == 1 && len(s.elems[ne-1][0]) == 1 && s.elems[ne-1][0][0] == "" {
			c.Inc("payload:trailing-empty-element")
		}
		segs = append(segs, s)
	}
	if r.Chance(1, 3) {
		cf.openEnd = true
		c.Inc("inputs_with_unterminated_last_segment")
		last := &segs[len(segs)-1]
		if cf.rel != "" && r.Chance(1, 2) {
			// ... whose last value ends in a released delimiter or release character
			if len(last.elems) == 0 {
				last.elems = append(last.elems, [][]string{{""}})
			}
			el := last.elems[len(last.elems)-1]
			rp := el[len(el)-1]
			rp[len(rp)-1] += r.Pick(cf.seg, cf.seg, cf.rel, cf.elem)
			if strings.ContainsAny(rp[len(rp)-1], "\r\n") {
				rp[len(rp)-1] = strings.NewReplacer("\r", "_", "\n", "_").Replace(rp[len(rp)-1])
			}
			c.Inc("unterminated_last_segment_ending_in_released_char")
		}
	}
	input := cf.render(r, segs, c)
	if nontrivial {
		c.Distinct(cf.String(), input)
	}
	c.Inc("inputs")
	c.Inc("evaluations")
	fd := &edi.FileDecl{SegDelim: cf.seg, ElemDelim: cf.elem, IgnoreCRLF: cf.ignoreCRLF}
	if cf.comp != "" {
		fd.CompDelim = &cf.comp
	}
	if cf.rep != "" {
		fd.RepDelim = &cf.rep
	}
	if cf.rel != "" {
		fd.ReleaseChar = &cf.rel
	}
	detail := func(m map[string]interface{}) map[string]interface{} {
		d := map[string]interface{}{"config": cf.String(), "input": core.Trunc(input, 3000), "input_len": len(input)}
		for k, v := range m {
			d[k] = v
		}
		return d
	}
	// ---- level 1: raw reader ----
	var rd io.Reader = strings.NewReader(input)
	if r.Chance(1, 3) {
		rd = mon.NewSchedule(r.Pick("small", "one-byte", "primes"), []byte(input), r.Fork(), nil)
	}
	nv := edi.NewNonValidatingReader(rd, fd)
	for si, s := range segs {
		raw, err := nv.Read()
		if err != nil {
			c.Violate("C07:raw:error", fmt.Sprintf("raw reader failed at segment %d: %v", si, err), detail(map[string]interface{}{"segment": si}))
			return
		}
		// expected grid
		type cell struct {
			e, k int
			data string
		}
		want := []cell{{0, 1, s.name}}
		for ei, el := range s.elems {
			for _, rp := range el {
				for ci, cm := range rp {
					want = append(want, cell{ei + 1, ci + 1, cf.escape(cm)})
				}
			}
		}
		c.Inc("segments_compared")
		seglen := 0
		for _, w := range want {
			seglen += len(w.data) + 1
		}
		if seglen > 128 {
			c.Inc("segments_over_128_bytes")
		}
		if seglen > 4096 {
			c.Inc("segments_over_4096_bytes")
		}
		var got []cell
		for _, e := range raw.Elems {
			got = append(got, cell{e.ElemIndex, e.CompIndex, string(e.Data)})
		}
		c.Count("components_compared", int64(len(want)))
		same := len(got) == len(want) && raw.Name == s.name
		if same {
			for i := range want {
				if got[i] != want[i] {
					same = false
					break
				}
			}
		}
		if !same {
			c.Violate("C07:raw:grid", fmt.Sprintf("segment %d is not split exactly at the unescaped delimiters", si),
				detail(map[string]interface{}{"segment": si, "expected_grid": fmt.Sprint(want), "got_grid": fmt.Sprint(got), "raw": core.Trunc(string(raw.Raw), 400)}))
			return
		}
		for _, w := range want[1:] {
			if cf.unescape(w.data) != unescapeCheck(cf, w.data) {
				break
			}
		}
	}
	if _, err := nv.Read(); err != io.EOF {
		c.Violate("C07:raw:no-eof", fmt.Sprintf("raw reader returned %v after the last segment instead of io.EOF", err), detail(nil))
		return
	}
	// ---- level 2: through the schema ----
	var elems []interface{}
	for _, d := range decls {
		m := map[string]interface{}{"name": d.name, "index": d.index}
		if d.comp > 0 {
			m["component_index"] = d.comp
		}
		if d.def != nil {
			m["default"] = *d.def
		}
		if d.emptyMiss {
			m["empty_if_missing"] = true
		}
		elems = append(elems, m)
	}
	fdj := map[string]interface{}{"segment_delimiter": cf.seg, "element_delimiter": cf.elem,
		"segment_declarations": []interface{}{map[string]interface{}{"name": "SEG", "is_target": true, "min": 0, "max": -1, "elements": elems}}}
	if cf.comp != "" {
		fdj["component_delimiter"] = cf.comp
	}
	if cf.rep != "" {
		fdj["repetition_delimiter"] = cf.rep
	}
	if cf.rel != "" {
		fdj["release_character"] = cf.rel
	}
	if cf.ignoreCRLF {
		fdj["ignore_crlf"] = true
	}
	schema, _ := json.Marshal(map[string]interface{}{
		"parser_settings":        map[string]interface{}{"version": "omni.2.1", "file_format_type": "edi"},
		"file_declaration":       fdj,
		"transform_declarations": map[string]interface{}{"FINAL_OUTPUT": map[string]interface{}{"const": "x"}},
	})
	sch, err := omni.NewSchema(schema)
	if err != nil {
		c.Inconclusive("edi schema rejected: " + err.Error())
		return
	}
	tr, err := sch.NewTransform("in", strings.NewReader(input), &transformctx.Ctx{})
	if err != nil {
		c.Violate("C07:schema:newtransform", "NewTransform failed: "+err.Error(), detail(map[string]interface{}{"schema": string(schema)}))
		return
	}
	for si, s := range segs {
		// expected per declaration
		type exp struct {
			vals    []string
			missing bool
		}
		var want []exp
		fatal := false
		for _, d := range decls {
			comp := d.comp
			if comp == 0 {
				comp = 1
			}
			var e exp
			if d.index <= len(s.elems) {
				for _, rp := range s.elems[d.index-1] {
					if comp <= len(rp) {
						e.vals = append(e.vals, rp[comp-1])
					}
				}
			}
			if len(e.vals) == 0 {
				e.missing = true
				switch {
				case d.def != nil:
					e.vals = []string{*d.def}
					c.Inc("missing:default")
				case d.emptyMiss:
					e.vals = []string{""}
					c.Inc("missing:empty_if_missing")
				default:
					fatal = true
					c.Inc("missing:fatal")
				}
			}
			want = append(want, e)
			if fatal {
				break
			}
		}
		_, rerr := tr.Read()
		cls := omni.Classify(rerr)
		d2 := func(m map[string]interface{}) map[string]interface{} {
			m["schema"] = string(schema)
			m["segment"] = si
			return detail(m)
		}
		if fatal {
			if cls != omni.FATAL {
				c.Violate("C07:schema:missing-element-not-fatal", fmt.Sprintf("segment %d lacks a declared element without default, Read returned %s", si, cls), d2(map[string]interface{}{}))
			}
			return
		}
		if cls != omni.OK {
			c.Violate("C07:schema:unexpected-"+cls, fmt.Sprintf("segment %d: Read returned %s: %v", si, cls, rerr), d2(map[string]interface{}{}))
			return
		}
		rr, _ := tr.RawRecord()
		node := rr.Raw().(*idr.Node)
		got := map[string][]string{}
		for ch := node.FirstChild; ch != nil; ch = ch.NextSibling {
			if ch.Type == idr.ElementNode {
				got[ch.Data] = append(got[ch.Data], ch.InnerText())
			}
		}
		for i, d := range decls {
			c.Inc("element_nodes_compared")
			if fmt.Sprint(got[d.name]) != fmt.Sprint(want[i].vals) || len(got[d.name]) != len(want[i].vals) {
				kind := "value"
				if want[i].missing {
					kind = "missing-handling"
				}
				if len(got[d.name]) != len(want[i].vals) {
					kind = "repetition-count"
				}
				c.Violate("C07:schema:element-"+kind, fmt.Sprintf("segment %d element %q (index %d, component %d): nodes differ from the logical values", si, d.name, d.index, d.comp),
					d2(map[string]interface{}{"element": d.name, "expected": want[i].vals, "got": got[d.name]}))
				return
			}
		}
	}
	if _, err := tr.Read(); err != io.EOF {
		c.Violate("C07:schema:no-eof", fmt.Sprintf("Read returned %v after the last segment instead of io.EOF", err), detail(map[string]interface{}{"schema": string(schema)}))
	}
	if c.Idx < 8 {
		c.Sample(map[string]interface{}{"config": cf.String(), "input": core.Trunc(input, 240)})
	}
}

func unescapeCheck(cf c07Config, s string) string { return cf.unescape(s) }
