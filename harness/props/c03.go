package props

import (
	"bytes"
	"encoding/json"
	"fmt"
	"os"
	"path/filepath"
	"regexp"
	"sort"
	"strings"
	"sync"

	"github.com/jf-tech/omniparser"
	"github.com/jf-tech/omniparser/transformctx"

	"verif/harness/core"
	"verif/harness/gen"
	"verif/harness/mon"
	"verif/harness/omni"
)

// C03 — no panic, no hang: schemas and inputs are untrusted data.

func init() {
	core.Register(&core.Prop{
		ID:    "C03",
		Level: "exploration",
		Rule: "each case = one seed (schema, input) drawn from the 20 sample schemas of the repository, the format kits in every mode, rich generated " +
			"declaration trees, nested xml/json workloads and random hierarchies, then (a) the schema is mutated at JSON level (delete / rename key, retype " +
			"value, odd numbers 0,-1,1.5,1e9,2^63-1,1e30, nasty strings, empty / multi-rune / control-character delimiters, invalid regex / xpath, template " +
			"cycles, wrong custom_func arity and argument types, non-string javascript argument names, numeric xpath comparisons on non-numeric data) or at byte " +
			"level, or replaced by an adversarial hand-written family, and fed to NewSchema; (b) every ACCEPTED schema is run on hostile inputs: the seed input, " +
			"truncated / spliced / byte-flipped / concatenated variants, empty, BOM fragments, binary noise, 70 KB lines, 10^4-10^5 levels of nesting, lone " +
			"escapes. Oracle: recover() around every API call; fatal runtime errors kill the child and are attributed to the case; Reads-to-terminal " +
			"<= len(input)+2; a spin detector in the harness io.Reader (10 000 polls after EOF); per-case watchdog with a 20x solo re-run before 'hang' is claimed. " +
			"Schema mutations include integers at the edge of their range on numeric slots and custom_func arguments that have no value on a record; the adversarial family includes dynamic xpaths that turn out boolean / numeric / string valued. " +
			"distinct = digest(schema text) of accepted schemas + digest(error text) of rejected ones; non-trivial = accepted mutated schema or rejected with a distinct validation message.",
		Assumptions: []string{
			"user JavaScript that itself loops and caller-registered functions' own failures are outside the claim (the harness functions never fail by themselves)",
			"segments / tokens beyond the scanners' 64 KiB limit must produce an error, which one is not asserted",
		},
		Cases: func(t core.Tier) int {
			if t == core.Thorough {
				return 300000
			}
			return 6000
		},
		Run:             runC03,
		HangIsViolation: true,
		Min: func(t core.Tier) map[string]int64 {
			return map[string]int64{"newschema_calls": 5000, "schemas_accepted": 1500, "schemas_rejected": 1000, "transform_runs": 4000, "reads": 20000,
				"accepted:csv": 50, "accepted:csv2": 50, "accepted:fixed-length": 50, "accepted:fixedlength2": 50, "accepted:edi": 50, "accepted:json": 50, "accepted:xml": 50}
		},
	})
}

type c03Seed struct {
	name   string
	schema []byte
	input  []byte
}

var (
	c03SamplesOnce sync.Once
	c03Samples     []c03Seed
)

func loadSamples() {
	repo := os.Getenv("VERIF_REPO")
	if repo == "" {
		repo = "/repo"
	}
	files, _ := filepath.Glob(filepath.Join(repo, "extensions/omniv21/samples/*/*.schema.json"))
	sort.Strings(files)
	for _, f := range files {
		sb, err := os.ReadFile(f)
		if err != nil {
			continue
		}
		base := strings.TrimSuffix(f, ".schema.json")
		ins, _ := filepath.Glob(base + ".input.*")
		var in []byte
		if len(ins) > 0 {
			in, _ = os.ReadFile(ins[0])
		}
		if len(in) > 20000 {
			in = in[:20000]
		}
		c03Samples = append(c03Samples, c03Seed{name: filepath.Base(f), schema: sb, input: in})
	}
}

func c03SeedOf(c *core.Ctx, r *core.Rand) c03Seed {
	c03SamplesOnce.Do(loadSamples)
	switch k := r.Intn(10); {
	case k < 3 && len(c03Samples) > 0:
		return c03Samples[r.Intn(len(c03Samples))]
	case k < 6:
		f := gen.Formats[r.Intn(len(gen.Formats))]
		cs := genFormatCase(c, r, f, false)
		return c03Seed{name: "kit:" + f + ":" + cs.mode, schema: cs.schema, input: cs.input}
	case k < 8:
		w := genRichWork(c, r, true, true)
		return c03Seed{name: "rich:" + w.format, schema: w.schema, input: w.input}
	default:
		reader := []string{"edi", "csv2", "fixedlength2"}[r.Intn(3)]
		h := genHier(r, reader)
		var tags []string
		h.derive(r, h.decls, &tags)
		var units []string
		_ = units
		var us []struct{ t string }
		_ = us
		input := c03RenderUnits(h, tags)
		return c03Seed{name: "hier:" + reader, schema: h.schema(), input: input}
	}
}

func c03RenderUnits(h *c05Hier, tags []string) []byte {
	var sb strings.Builder
	for i, t := range tags {
		switch h.reader {
		case "edi":
			fmt.Fprintf(&sb, "%s*u%d~", t, i)
		case "csv2":
			fmt.Fprintf(&sb, "%s,u%d\n", t, i)
		default:
			fmt.Fprintf(&sb, "%su%-5d\n", t, i)
		}
	}
	return []byte(sb.String())
}

// c03OddValues returns fresh values on every call: the containers among them end up inside the mutated document and are mutated further.
func c03OddValues() []interface{} {
	return []interface{}{0, -1, 1, 1.5, 1e9, int64(9223372036854775807), 1e30, -1e30, "", "x", "*", "[", "(", "\\", "\x00", "\n", "ab", "§§", nil, true, false,
		[]interface{}{}, map[string]interface{}{}, []interface{}{1, "a"}, strings.Repeat("long", 500)}
}

var c03BoundaryInts = []interface{}{int64(9223372036854775807), int64(9223372036854775806), int64(9223372036854775800), int64(4611686018427387904), int64(4294967296),
	int64(2147483648), int64(2147483647), int64(65536), int64(4096), 0, 1, 2, 3, -1, int64(-9223372036854775808)}

var c03OddXPaths = []string{"a>1", "n > 5", ".[n > 5]", "/", "//", "..", "a[", "a | b", "1 div 0", "sum(*)>1", "name(", "@", "a[position()=1e99]", "string-length(a) > number(b)",
	"*[. < 3]", "count(a) div count(b)", "a/b/c/d/e/f/g", ".[matches(id, '(')]", ".[id='r1' or n>='x']", "concat(a)", "substring(a,1e10)", "//*[.//*[.//*]]", "'lit'", "3", "a=b", "not(a) = b", "-a",
	"concat(a)//a", "concat(a,b)/c", "string(.)//*", "count(a)/b", "(a|b)//c", "a//b//c[1]", "id('x')", "sum(a)//text()"}

var c03Keys = []string{"xpath", "xpath_dynamic", "object", "array", "template", "custom_func", "const", "external", "type", "no_trim", "keep_empty_or_null", "name", "args",
	"ignore_error", "min", "max", "rows", "header", "footer", "is_target", "columns", "index", "line_index", "line_pattern", "start_pos", "length", "delimiter",
	"segment_delimiter", "element_delimiter", "component_delimiter", "repetition_delimiter", "release_character", "ignore_crlf", "elements", "child_segments",
	"child_records", "child_envelopes", "envelopes", "records", "by_rows", "by_header_footer", "not_target", "data_row_index", "header_row_index", "replace_double_quotes",
	"component_index", "default", "empty_if_missing", "encoding", "version", "file_format_type", "FINAL_OUTPUT"}

// mutateJSON applies one random JSON-level edit somewhere in the tree and returns the kind of edit.
func mutateJSON(r *core.Rand, v interface{}, tmplNames []string) (interface{}, string) {
	// collect paths to containers
	type slot struct {
		parent interface{}
		key    string
		idx    int
	}
	var slots []slot
	var walk func(x interface{})
	walk = func(x interface{}) {
		switch t := x.(type) {
		case map[string]interface{}:
			keys := make([]string, 0, len(t))
			for k := range t {
				keys = append(keys, k)
			}
			sort.Strings(keys)
			for _, k := range keys {
				slots = append(slots, slot{parent: t, key: k})
				walk(t[k])
			}
		case []interface{}:
			for i := range t {
				slots = append(slots, slot{parent: t, idx: i})
				walk(t[i])
			}
		}
	}
	walk(v)
	if len(slots) == 0 {
		return v, "none"
	}
	s := slots[r.Intn(len(slots))]
	get := func() interface{} {
		if m, ok := s.parent.(map[string]interface{}); ok {
			return m[s.key]
		}
		return s.parent.([]interface{})[s.idx]
	}
	set := func(x interface{}) {
		if m, ok := s.parent.(map[string]interface{}); ok {
			m[s.key] = x
		} else {
			s.parent.([]interface{})[s.idx] = x
		}
	}
	switch op := r.Intn(14); {
	case op >= 12:
		// a bound, position, count or index pushed to the edge of its integer range (schema-valid: the json schemas only give minimums)
		var nums []slot
		for _, sl := range slots {
			var cur interface{}
			if m, ok := sl.parent.(map[string]interface{}); ok {
				cur = m[sl.key]
			} else {
				cur = sl.parent.([]interface{})[sl.idx]
			}
			if _, isNum := cur.(float64); isNum {
				nums = append(nums, sl)
			}
		}
		if len(nums) == 0 {
			return v, "none"
		}
		s = nums[r.Intn(len(nums))]
		set(c03BoundaryInts[r.Intn(len(c03BoundaryInts))])
		return v, "boundary-number"
	case op == 0:
		if m, ok := s.parent.(map[string]interface{}); ok {
			delete(m, s.key)
			return v, "delete-key"
		}
		set(nil)
		return v, "null-element"
	case op == 1:
		if m, ok := s.parent.(map[string]interface{}); ok {
			val := m[s.key]
			delete(m, s.key)
			m[c03Keys[r.Intn(len(c03Keys))]] = val
			return v, "rename-key"
		}
		return v, "none"
	case op <= 4:
		odd := c03OddValues()
		set(odd[r.Intn(len(odd))])
		return v, "odd-value"
	case op == 5:
		if m, ok := s.parent.(map[string]interface{}); ok {
			if _, isStr := m[s.key].(string); isStr && (s.key == "xpath" || r.Chance(1, 3)) {
				m[s.key] = c03OddXPaths[r.Intn(len(c03OddXPaths))]
				return v, "odd-xpath"
			}
			m["xpath"] = c03OddXPaths[r.Intn(len(c03OddXPaths))]
			return v, "add-xpath"
		}
		return v, "none"
	case op == 6:
		// template cycle / dangling template
		if m, ok := get().(map[string]interface{}); ok {
			name := "nope"
			if len(tmplNames) > 0 && r.Chance(2, 3) {
				name = tmplNames[r.Intn(len(tmplNames))]
			}
			for k := range m {
				delete(m, k)
			}
			m["template"] = name
			return v, "template-ref"
		}
		return v, "none"
	case op == 7:
		// custom_func with wrong arity / argument types
		if m, ok := get().(map[string]interface{}); ok {
			fn := r.Pick("upper", "lower", "concat", "uuidv3", "dateTimeToRFC3339", "epochToDateTimeRFC3339", "javascript", "javascript_with_context", "copy", "coalesce",
				"dateTimeLayoutToRFC3339", "dateTimeToEpoch", "now", "vf_i", "vf_f", "vf_b", "vf_2", "nosuchfunc")
			var args []interface{}
			for i := 0; i < r.Intn(5); i++ {
				switch r.Intn(7) {
				case 5:
					// an argument without a value on this record (xpath that matches nothing / empty text)
					args = append(args, map[string]interface{}{"xpath": r.Pick("no_such_child", "no/such/path", "@nope", "*[1=2]")})
				case 6:
					args = append(args, map[string]interface{}{"xpath": r.Pick(".", "*", "id", "n", "f1", "a", "b")})
				case 0:
					args = append(args, map[string]interface{}{"const": "1", "type": "int"})
				case 1:
					args = append(args, map[string]interface{}{"const": "1.5", "type": "float"})
				case 2:
					args = append(args, map[string]interface{}{"const": "true", "type": "boolean"})
				case 3:
					args = append(args, map[string]interface{}{"array": []interface{}{map[string]interface{}{"const": "x"}}})
				default:
					args = append(args, map[string]interface{}{"const": r.Pick("x", "", "1", "p0", "2020-13-45", "_node")})
				}
			}
			for k := range m {
				if k != "xpath" {
					delete(m, k)
				}
			}
			m["custom_func"] = map[string]interface{}{"name": fn, "args": args}
			return v, "custom-func-args"
		}
		return v, "none"
	case op == 8:
		if a, ok := get().([]interface{}); ok && len(a) > 0 {
			set(append(a, a[r.Intn(len(a))]))
			return v, "duplicate-element"
		}
		return v, "none"
	case op == 9:
		set([]interface{}{get()})
		return v, "wrap-in-array"
	case op == 10:
		if m, ok := s.parent.(map[string]interface{}); ok {
			m["min"], m["max"] = r.Pick("2", "0", "-1", "5"), r.Pick("1", "0", "-1", "-5")
			// numbers, not strings
			for _, k := range []string{"min", "max"} {
				var n interface{}
				json.Unmarshal([]byte(m[k].(string)), &n)
				m[k] = n
			}
			return v, "min-max"
		}
		return v, "none"
	default:
		if m, ok := s.parent.(map[string]interface{}); ok {
			m[r.Pick("delimiter", "segment_delimiter", "element_delimiter", "release_character", "component_delimiter", "header", "footer", "line_pattern")] =
				r.Pick("", "ab", "\n", "\x00", "(", "[a-", "\\", "**", "é", ".*", "^$")
			return v, "delimiter-or-regex"
		}
		return v, "none"
	}
}

var c03Adversarial = []string{
	// template cycles
	`{"parser_settings":{"version":"omni.2.1","file_format_type":"json"},"transform_declarations":{"FINAL_OUTPUT":{"template":"a"},"a":{"template":"b"},"b":{"template":"a"}}}`,
	`{"parser_settings":{"version":"omni.2.1","file_format_type":"json"},"transform_declarations":{"FINAL_OUTPUT":{"template":"FINAL_OUTPUT"}}}`,
	`{"parser_settings":{"version":"omni.2.1","file_format_type":"xml"},"transform_declarations":{"FINAL_OUTPUT":{"object":{"x":{"template":"a"}}},"a":{"array":[{"template":"b"}]},"b":{"custom_func":{"name":"concat","args":[{"template":"a"}]}}}}`,
	`{"parser_settings":{"version":"omni.2.1","file_format_type":"json"},"transform_declarations":{"FINAL_OUTPUT":{"xpath_dynamic":{"template":"a"},"object":{}},"a":{"xpath_dynamic":{"template":"a"}}}}`,
	// nulls where a declaration is expected, out of the JSON schema's sight (under xpath_dynamic), also inside template bodies (deep copied first)
	`{"parser_settings":{"version":"omni.2.1","file_format_type":"json"},"transform_declarations":{"FINAL_OUTPUT":{"object":{"a":{"template":"t"}}},"t":{"xpath_dynamic":{"custom_func":{"name":"concat","args":[null,{"const":"x"}]}}}}}`,
	`{"parser_settings":{"version":"omni.2.1","file_format_type":"json"},"transform_declarations":{"FINAL_OUTPUT":{"object":{"a":{"template":"t"},"b":{"xpath_dynamic":{"array":[null]}}}},"t":{"xpath_dynamic":{"object":{"k":null}}}}}`,
	`{"parser_settings":{"version":"omni.2.1","file_format_type":"json"},"transform_declarations":{"FINAL_OUTPUT":{"xpath_dynamic":{"custom_func":{"name":"concat","args":[{"xpath_dynamic":{"custom_func":{"name":"upper","args":[null]}}}]}},"object":{}}}}`,
	// delimiters the csv reader itself rejects (they pass schema validation), with rows to skip
	`{"parser_settings":{"version":"omni.2.1","file_format_type":"csv"},"file_declaration":{"delimiter":"\"","data_row_index":3,"columns":[{"name":"a"}]},"transform_declarations":{"FINAL_OUTPUT":{"object":{"a":{"xpath":"a"}}}}}`,
	`{"parser_settings":{"version":"omni.2.1","file_format_type":"csv"},"file_declaration":{"delimiter":"\u0000","header_row_index":2,"data_row_index":4,"columns":[{"name":"a"}]},"transform_declarations":{"FINAL_OUTPUT":{"object":{"a":{"xpath":"a"}}}}}`,
	`{"parser_settings":{"version":"omni.2.1","file_format_type":"csv"},"file_declaration":{"delimiter":"\n","data_row_index":2,"columns":[{"name":"a"}]},"transform_declarations":{"FINAL_OUTPUT":{"object":{"a":{"xpath":"a"}}}}}`,
	`{"parser_settings":{"version":"omni.2.1","file_format_type":"csv2"},"file_declaration":{"delimiter":"\"","records":[{"columns":[{"name":"a","index":1}]}]},"transform_declarations":{"FINAL_OUTPUT":{"object":{"a":{"xpath":"a"}}}}}`,
	// huge numbers
	`{"parser_settings":{"version":"omni.2.1","file_format_type":"fixedlength2"},"file_declaration":{"envelopes":[{"rows":9223372036854775807,"columns":[{"name":"a","start_pos":9223372036854775807,"length":9223372036854775807}]}]},"transform_declarations":{"FINAL_OUTPUT":{"object":{"a":{"xpath":"a"}}}}}`,
	`{"parser_settings":{"version":"omni.2.1","file_format_type":"fixedlength2"},"file_declaration":{"envelopes":[{"columns":[{"name":"a","start_pos":2,"length":9223372036854775807,"line_index":9223372036854775807}]}]},"transform_declarations":{"FINAL_OUTPUT":{"object":{"a":{"xpath":"a"}}}}}`,
	`{"parser_settings":{"version":"omni.2.1","file_format_type":"fixedlength2"},"file_declaration":{"envelopes":[{"columns":[{"name":"a","start_pos":2,"length":9223372036854775807},{"name":"b","start_pos":3,"length":9223372036854775806},{"name":"c","start_pos":9223372036854775807,"length":1}]}]},"transform_declarations":{"FINAL_OUTPUT":{"object":{"a":{"xpath":"a"},"b":{"xpath":"b"},"c":{"xpath":"c"}}}}}`,
	`{"parser_settings":{"version":"omni.2.1","file_format_type":"fixed-length"},"file_declaration":{"envelopes":[{"columns":[{"name":"a","start_pos":2,"length":9223372036854775807},{"name":"b","start_pos":9223372036854775807,"length":9223372036854775807}]}]},"transform_declarations":{"FINAL_OUTPUT":{"object":{"a":{"xpath":"a"},"b":{"xpath":"b"}}}}}`,
	`{"parser_settings":{"version":"omni.2.1","file_format_type":"csv2"},"file_declaration":{"delimiter":",","records":[{"columns":[{"name":"a","index":9223372036854775807},{"name":"b","index":2}]}]},"transform_declarations":{"FINAL_OUTPUT":{"object":{"a":{"xpath":"a"},"b":{"xpath":"b"}}}}}`,
	`{"parser_settings":{"version":"omni.2.1","file_format_type":"edi"},"file_declaration":{"segment_delimiter":"~","element_delimiter":"*","component_delimiter":":","segment_declarations":[{"name":"A","is_target":true,"max":-1,"min":0,"elements":[{"name":"e","index":9223372036854775807,"empty_if_missing":true},{"name":"f","index":1,"component_index":9223372036854775807,"empty_if_missing":true}]}]},"transform_declarations":{"FINAL_OUTPUT":{"object":{"e":{"xpath":"e"},"f":{"xpath":"f"}}}}}`,
	`{"parser_settings":{"version":"omni.2.1","file_format_type":"fixed-length"},"file_declaration":{"envelopes":[{"by_rows":1000000000,"columns":[{"name":"a","start_pos":1,"length":1e18}]}]},"transform_declarations":{"FINAL_OUTPUT":{"object":{"a":{"xpath":"a"}}}}}`,
	`{"parser_settings":{"version":"omni.2.1","file_format_type":"csv"},"file_declaration":{"delimiter":",","data_row_index":9223372036854775807,"header_row_index":1,"columns":[{"name":"a"}]},"transform_declarations":{"FINAL_OUTPUT":{"object":{"a":{"xpath":"a"}}}}}`,
	`{"parser_settings":{"version":"omni.2.1","file_format_type":"csv2"},"file_declaration":{"delimiter":",","records":[{"rows":1e9,"columns":[{"name":"a","index":9223372036854775807,"line_index":1e9}]}]},"transform_declarations":{"FINAL_OUTPUT":{"object":{"a":{"xpath":"a"}}}}}`,
	`{"parser_settings":{"version":"omni.2.1","file_format_type":"csv2"},"file_declaration":{"delimiter":",","records":[{"min":3,"max":2}]},"transform_declarations":{"FINAL_OUTPUT":{"const":"x"}}}`,
	`{"parser_settings":{"version":"omni.2.1","file_format_type":"csv2"},"file_declaration":{"delimiter":",","records":[{"min":0,"max":0,"child_records":[{"type":"record_group","child_records":[]}]}]},"transform_declarations":{"FINAL_OUTPUT":{"const":"x"}}}`,
	`{"parser_settings":{"version":"omni.2.1","file_format_type":"csv2"},"file_declaration":{"delimiter":","},"transform_declarations":{"FINAL_OUTPUT":{"const":"x"}}}`,
	`{"parser_settings":{"version":"omni.2.1","file_format_type":"fixedlength2"},"file_declaration":{"envelopes":[]},"transform_declarations":{"FINAL_OUTPUT":{"const":"x"}}}`,
	`{"parser_settings":{"version":"omni.2.1","file_format_type":"edi"},"file_declaration":{"segment_delimiter":"~","element_delimiter":"*","segment_declarations":[{"name":"A","is_target":true,"max":0,"min":0,"elements":[{"name":"e","index":9223372036854775807,"component_index":9223372036854775807}]}]},"transform_declarations":{"FINAL_OUTPUT":{"const":"x"}}}`,
	`{"parser_settings":{"version":"omni.2.1","file_format_type":"edi"},"file_declaration":{"segment_delimiter":"~","element_delimiter":"~","component_delimiter":"~","repetition_delimiter":"~","release_character":"~","segment_declarations":[{"name":"A","is_target":true,"min":0,"max":-1}]},"transform_declarations":{"FINAL_OUTPUT":{"const":"x"}}}`,
	`{"parser_settings":{"version":"omni.2.1","file_format_type":"edi"},"file_declaration":{"segment_delimiter":"\n","element_delimiter":"\r","ignore_crlf":true,"segment_declarations":[{"name":"A","is_target":true,"min":0,"max":-1}]},"transform_declarations":{"FINAL_OUTPUT":{"const":"x"}}}`,
	`{"parser_settings":{"version":"omni.2.1","file_format_type":"edi"},"file_declaration":{"segment_delimiter":"ab","element_delimiter":"a","release_character":"b","segment_declarations":[{"name":"G","type":"segment_group","is_target":true,"min":0,"max":-1,"child_segments":[{"name":"G2","type":"segment_group","child_segments":[{"name":"X"}]}]}]},"transform_declarations":{"FINAL_OUTPUT":{"const":"x"}}}`,
	// custom_func misuse
	`{"parser_settings":{"version":"omni.2.1","file_format_type":"json"},"transform_declarations":{"FINAL_OUTPUT":{"custom_func":{"name":"upper","args":[{"const":"1","type":"int"}]}}}}`,
	`{"parser_settings":{"version":"omni.2.1","file_format_type":"json"},"transform_declarations":{"FINAL_OUTPUT":{"custom_func":{"name":"upper"}}}}`,
	`{"parser_settings":{"version":"omni.2.1","file_format_type":"json"},"transform_declarations":{"FINAL_OUTPUT":{"custom_func":{"name":"upper","args":[{"const":"a"},{"const":"b"}]}}}}`,
	`{"parser_settings":{"version":"omni.2.1","file_format_type":"json"},"transform_declarations":{"FINAL_OUTPUT":{"custom_func":{"name":"javascript","args":[{"const":"1"},{"const":"1","type":"int"},{"const":"v"}]}}}}`,
	`{"parser_settings":{"version":"omni.2.1","file_format_type":"json"},"transform_declarations":{"FINAL_OUTPUT":{"custom_func":{"name":"javascript","args":[{"const":"x","type":"boolean","keep_empty_or_null":true}]}}}}`,
	`{"parser_settings":{"version":"omni.2.1","file_format_type":"json"},"transform_declarations":{"FINAL_OUTPUT":{"custom_func":{"name":"javascript"}}}}`,
	`{"parser_settings":{"version":"omni.2.1","file_format_type":"json"},"transform_declarations":{"FINAL_OUTPUT":{"custom_func":{"name":"javascript_with_context","args":[{"array":[{"const":"x"}]}]}}}}`,
	`{"parser_settings":{"version":"omni.2.1","file_format_type":"json"},"transform_declarations":{"FINAL_OUTPUT":{"custom_func":{"name":"concat","args":[{"custom_func":{"name":"copy"}}]}}}}`,
	`{"parser_settings":{"version":"omni.2.1","file_format_type":"json"},"transform_declarations":{"FINAL_OUTPUT":{"custom_func":{"name":"epochToDateTimeRFC3339","args":[{"const":"1"},{"const":"SECOND"},{"const":"UTC"},{"const":"UTC"}]}}}}`,
	`{"parser_settings":{"version":"omni.2.1","file_format_type":"json"},"transform_declarations":{"FINAL_OUTPUT":{"custom_func":{"name":"now","args":[{"const":"1"}]}}}}`,
	`{"parser_settings":{"version":"omni.2.1","file_format_type":"json"},"transform_declarations":{"FINAL_OUTPUT":{"custom_func":{"name":"javascript","args":[{"const":"(function f(n){return n<=0?0:f(n-1)+1})(100000)"}]}}}}`,
	`{"parser_settings":{"version":"omni.2.1","file_format_type":"json"},"transform_declarations":{"FINAL_OUTPUT":{"object":{"a":{"custom_func":{"name":"upper","args":[{"xpath":"a"},{"xpath":"nope"}]}},"b":{"custom_func":{"name":"vf_2","args":[{"xpath":"a"},{"xpath":"b"},{"xpath":"nope"}]}},"c":{"custom_func":{"name":"vf_i","args":[{"xpath":"nope","type":"int"},{"xpath":"nope"},{"xpath":"nope"},{"xpath":"nope"}]}}}}}}`,
	`{"parser_settings":{"version":"omni.2.1","file_format_type":"csv"},"file_declaration":{"delimiter":",","data_row_index":1,"columns":[{"name":"a"},{"name":"b"}]},"transform_declarations":{"FINAL_OUTPUT":{"object":{"x":{"custom_func":{"name":"lower","args":[{"xpath":"a"},{"xpath":"b"}]}},"y":{"custom_func":{"name":"dateTimeToRFC3339","args":[{"xpath":"a"},{"xpath":"b"},{"xpath":"b"},{"xpath":"b"}]}}}}}}`,
	// dynamic xpaths that turn out boolean / numeric / string valued on the data
	`{"parser_settings":{"version":"omni.2.1","file_format_type":"csv"},"file_declaration":{"delimiter":",","data_row_index":1,"columns":[{"name":"a"},{"name":"b"}]},"transform_declarations":{"FINAL_OUTPUT":{"object":{"x":{"array":[{"xpath_dynamic":{"const":"count(*) > 0"}}]},"y":{"array":[{"xpath_dynamic":{"const":"a = a"}},{"xpath_dynamic":{"xpath":"b"}}]},"z":{"xpath_dynamic":{"const":"1 = 1"}}}}}}`,
	`{"parser_settings":{"version":"omni.2.1","file_format_type":"json"},"transform_declarations":{"FINAL_OUTPUT":{"xpath":"/*","object":{"x":{"array":[{"xpath_dynamic":{"const":"count(*) >= 0"},"object":{"k":{"xpath":"."}}}]},"y":{"array":[{"xpath_dynamic":{"custom_func":{"name":"concat","args":[{"const":"true"},{"const":"()"}]}}}]}}}}}`,
	// target filters with numeric comparisons over cells that are not numbers (every reader evaluates the target xpath itself)
	`{"parser_settings":{"version":"omni.2.1","file_format_type":"csv"},"file_declaration":{"delimiter":",","data_row_index":1,"columns":[{"name":"a"},{"name":"b"}]},"transform_declarations":{"FINAL_OUTPUT":{"xpath":".[b > 100]","object":{"a":{"xpath":"a"}}}}}`,
	`{"parser_settings":{"version":"omni.2.1","file_format_type":"csv2"},"file_declaration":{"delimiter":",","records":[{"columns":[{"name":"a","index":1},{"name":"b","index":2}]}]},"transform_declarations":{"FINAL_OUTPUT":{"xpath":".[b < 3.5 or a >= 1]","object":{"a":{"xpath":"a"}}}}}`,
	`{"parser_settings":{"version":"omni.2.1","file_format_type":"fixed-length"},"file_declaration":{"envelopes":[{"columns":[{"name":"a","start_pos":1,"length":2},{"name":"b","start_pos":3,"length":3}]}]},"transform_declarations":{"FINAL_OUTPUT":{"xpath":".[b > 7]","object":{"a":{"xpath":"a"}}}}}`,
	`{"parser_settings":{"version":"omni.2.1","file_format_type":"fixedlength2"},"file_declaration":{"envelopes":[{"columns":[{"name":"a","start_pos":1,"length":2},{"name":"b","start_pos":3,"length":3}]}]},"transform_declarations":{"FINAL_OUTPUT":{"xpath":".[number(b) > 7 or b > 7]","object":{"a":{"xpath":"a"}}}}}`,
	`{"parser_settings":{"version":"omni.2.1","file_format_type":"edi"},"file_declaration":{"segment_delimiter":"~","element_delimiter":"*","segment_declarations":[{"name":"A","is_target":true,"min":0,"max":-1,"elements":[{"name":"e","index":1}]}]},"transform_declarations":{"FINAL_OUTPUT":{"xpath":".[e > 1]","object":{"e":{"xpath":"e"}}}}}`,
	`{"parser_settings":{"version":"omni.2.1","file_format_type":"json"},"transform_declarations":{"FINAL_OUTPUT":{"xpath":"/*[a > 3 or . > 1]","object":{"v":{"xpath":"a"}}}}}`,
	`{"parser_settings":{"version":"omni.2.1","file_format_type":"xml"},"transform_declarations":{"FINAL_OUTPUT":{"xpath":"/*/*[b > 2]","object":{"v":{"xpath":"b"}}}}}`,
	`{"parser_settings":{"version":"omni.2.1","file_format_type":"xml"},"transform_declarations":{"FINAL_OUTPUT":{"xpath":"/*/*","object":{"a":{"xpath":"concat(a)//a"},"b":{"array":[{"xpath":"concat(b)//b"}]},"c":{"xpath_dynamic":{"const":"string(.)//*"}}}}}}`,
	`{"parser_settings":{"version":"omni.2.1","file_format_type":"json"},"transform_declarations":{"FINAL_OUTPUT":{"xpath":"concat(a)//a","object":{}}}}`,
	// xpath oddities evaluated on data
	`{"parser_settings":{"version":"omni.2.1","file_format_type":"json"},"transform_declarations":{"FINAL_OUTPUT":{"xpath":"/*[a > 3]","object":{"v":{"xpath":"a[. > 3]"}}}}}`,
	`{"parser_settings":{"version":"omni.2.1","file_format_type":"xml"},"transform_declarations":{"FINAL_OUTPUT":{"xpath":"//a[b >= c]","object":{"v":{"xpath":"b[. < ../c]"},"w":{"xpath_dynamic":{"xpath":"b"}}}}}}`,
	`{"parser_settings":{"version":"omni.2.1","file_format_type":"csv"},"file_declaration":{"delimiter":",","data_row_index":1,"columns":[{"name":"a"},{"name":"b"}]},"transform_declarations":{"FINAL_OUTPUT":{"xpath":".[a > b]","object":{"a":{"xpath":"a"},"s":{"xpath":".[sum(*) > 1]"}}}}}`,
	`{"parser_settings":{"version":"omni.2.1","file_format_type":"xml"},"transform_declarations":{"FINAL_OUTPUT":{"xpath":"/","object":{}}}}`,
	`{"parser_settings":{"version":"omni.2.1","file_format_type":"json"},"transform_declarations":{"FINAL_OUTPUT":{"xpath":"//*","custom_func":{"name":"copy"}}}}`,
	`{"parser_settings":{"version":"omni.2.1","file_format_type":"xml"},"transform_declarations":{"FINAL_OUTPUT":{"xpath":"//@*","custom_func":{"name":"copy"}}}}`,
	`{"parser_settings":{"version":"omni.2.1","file_format_type":"xml"},"transform_declarations":{"FINAL_OUTPUT":{"xpath":"//text()","object":{"p":{"xpath":".."},"q":{"xpath":"../.."}}}}}`,
	`{"parser_settings":{"version":"omni.2.1","file_format_type":"fixed-length"},"file_declaration":{"envelopes":[{"name":"a","by_header_footer":{"header":"^A","footer":"^Z"},"not_target":true,"columns":[{"name":"c","start_pos":1,"length":3}]},{"name":"b","by_header_footer":{"header":"^B","footer":"^B"},"columns":[{"name":"c","start_pos":1,"length":3,"line_pattern":"^B"}]}]},"transform_declarations":{"FINAL_OUTPUT":{"xpath":".[c != '']","object":{"c":{"xpath":"c"},"up":{"xpath":"../a/c"}}}}}`,
}

var c03HostileInputs = []string{"", "\xef\xbb\xbf", "\xef\xbb", "\xff\xfe", "\x00", "{}{}", "{} {}", "1 2 3", "[1][2]", `{"a":{"a":1,"b":2,"c":3}} {"a":1}`, "<a/><a/>", "<a><b>1</b><c>2</c></a><a/>",
	"<a>", "</a>", "<a xmlns:p='u'><p:b/></a>", "<p:a/>", "<a b='1' b='2'/>", "<?xml version='1.0' encoding='x-unknown'?><a/>", "<!DOCTYPE a [<!ENTITY e 'x'>]><a>&e;</a>",
	"A*1~B*2~", "A*1~\n\nA*2", "A?", "A*?", "?~", "~~~~", "***", "A*1\n", "\"", "\"\"\"", "a,\"b\nc", "a,b\r\n\r\n\r\nc,d", ",,,,\n,,,,", "\n\n\n", "\r\r\r", " ", "\t",
	`{"a":[1,2,{"a":"x"}],"b":null}`, `[{"a":1},{"a":"x","b":{"c":"2"}}]`, `"str"`, "null", "tru", `{"a":`, `{"a":1,}`, `{"\ud800":1}`, "{\"a\":1e400}", `{"a":-0}`,
	"H:x\nM1y\nT:z\n", "L0a\nL1b\n", "A000001\nB000002\nA000003\n", "A,u1\nB,u2\n"}

func c03Inputs(c *core.Ctx, r *core.Rand, seed c03Seed, n int) [][]byte {
	var out [][]byte
	for i := 0; i < n; i++ {
		switch k := r.Intn(12); {
		case k == 0:
			out = append(out, seed.input)
		case k <= 4 && len(seed.input) > 0:
			in := seed.input
			for m := 0; m < r.Range(1, 3); m++ {
				in, _ = mutateInput(r, in)
			}
			out = append(out, in)
		case k == 5:
			b := make([]byte, r.Range(1, 2000))
			for j := range b {
				b[j] = byte(r.Intn(256))
			}
			out = append(out, b)
		case k == 6:
			// very long line / segment
			out = append(out, []byte(strings.Repeat(r.Pick("a", "ab,", "é", "*", "x y"), r.Pick2(130, 4200, 70000))))
		case k == 7:
			// deep nesting
			depth := 10000
			if c.Tier == core.Thorough && r.Chance(1, 10) && c03CheapTarget(seed.schema) {
				// (the target xpath is re-evaluated against the whole open tree at every element start; with a descendant step, a predicate
				// or a comparison - whose operands are string-values of ever deeper subtrees - that is quadratic in the depth by design,
				// minutes at this depth: slow, not a hang, and a wall clock must not decide it. Only plain child paths get this depth.)
				depth = 100000
			}
			switch r.Intn(3) {
			case 0:
				out = append(out, []byte(strings.Repeat("[", depth)+strings.Repeat("]", r.Pick2(0, depth, depth))))
			case 1:
				out = append(out, []byte(strings.Repeat(`{"a":`, depth)+"1"+strings.Repeat("}", r.Pick2(0, depth, depth))))
			default:
				out = append(out, []byte(strings.Repeat("<a>", depth)+strings.Repeat("</a>", r.Pick2(0, depth, depth))))
			}
			c.Inc("deep_nesting_inputs")
		case k == 8 && len(seed.input) > 0:
			out = append(out, append(append([]byte{}, seed.input...), seed.input...))
		default:
			out = append(out, []byte(c03HostileInputs[r.Intn(len(c03HostileInputs))]))
		}
	}
	return out
}

var c03PlainPath = regexp.MustCompile(`^[A-Za-z0-9_./*:-]*$`)

// c03CheapTarget: the schema's FINAL_OUTPUT xpath (if any) is a plain path of child steps.
func c03CheapTarget(schema []byte) bool {
	var h struct {
		TD map[string]json.RawMessage `json:"transform_declarations"`
	}
	if json.Unmarshal(schema, &h) != nil {
		return false
	}
	var fo struct {
		XPath        *string         `json:"xpath"`
		XPathDynamic json.RawMessage `json:"xpath_dynamic"`
	}
	if json.Unmarshal(h.TD["FINAL_OUTPUT"], &fo) != nil || fo.XPathDynamic != nil {
		return false
	}
	return fo.XPath == nil || (c03PlainPath.MatchString(*fo.XPath) && !strings.Contains(*fo.XPath, "//"))
}

func formatOf(schema []byte) string {
	var h struct {
		PS struct {
			F string `json:"file_format_type"`
		} `json:"parser_settings"`
	}
	json.Unmarshal(schema, &h)
	return h.PS.F
}

func runC03(c *core.Ctx) {
	r := c.R
	seed := c03SeedOf(c, r)
	schema := seed.schema
	how := "unmutated"
	switch k := r.Intn(10); {
	case k < 5:
		var doc interface{}
		if json.Unmarshal(schema, &doc) == nil {
			var tmpl []string
			if m, ok := doc.(map[string]interface{}); ok {
				if td, ok := m["transform_declarations"].(map[string]interface{}); ok {
					for k := range td {
						tmpl = append(tmpl, k)
					}
					sort.Strings(tmpl)
				}
			}
			var kinds []string
			for i := 0; i < r.Range(1, 3); i++ {
				var kind string
				doc, kind = mutateJSON(r, doc, tmpl)
				kinds = append(kinds, kind)
			}
			schema, _ = json.Marshal(doc)
			how = "json:" + strings.Join(kinds, "+")
		}
	case k < 7:
		for i := 0; i < r.Range(1, 3); i++ {
			schema, _ = mutateInput(r, schema)
		}
		how = "bytes"
	case k < 8:
		schema = []byte(c03Adversarial[r.Intn(len(c03Adversarial))])
		how = "adversarial-family"
		seed.input = nil
	}
	c.Inc("newschema_calls")
	c.Inc("evaluations")
	c.Inc("mutation:" + strings.SplitN(how, "+", 2)[0])
	detail := func(extra map[string]interface{}) map[string]interface{} {
		d := map[string]interface{}{"seed": seed.name, "mutation": how, "schema": core.Trunc(string(schema), 6000)}
		for k, v := range extra {
			d[k] = v
		}
		return d
	}
	var s omniparser.Schema
	var err error
	if pi := core.Guard(func() { s, err = omniparser.NewSchema("schema", bytes.NewReader(schema), omni.Ext) }); pi != nil {
		c.Violate("panic:NewSchema:"+pi.Site+":"+core.PanicClass(pi.Value), "NewSchema panicked: "+core.Trunc(pi.Value, 300), detail(map[string]interface{}{"panic": pi.Value, "stack": core.Trunc(pi.Stack, 3000)}))
		return
	}
	if err != nil {
		c.Inc("schemas_rejected")
		msg := err.Error()
		if len(msg) > 60 {
			msg = msg[:60]
		}
		c.Distinct("rejected", msg)
		return
	}
	c.Inc("schemas_accepted")
	format := formatOf(schema)
	c.Inc("accepted:" + format)
	if how != "unmutated" {
		c.Inc("accepted_mutated")
	}
	c.Distinct("accepted", string(schema))
	seed.schema = schema // the schema actually in use decides which inputs are affordable
	for ii, input := range c03Inputs(c, r, seed, 4) {
		c.Inc("transform_runs")
		if dir := os.Getenv("VERIF_DUMP_DIR"); dir != "" {
			// debugging aid: the case is on disk before it is executed
			os.WriteFile(filepath.Join(dir, fmt.Sprintf("c03-%d-%d.schema.json", c.Idx, ii)), schema, 0o644)
			os.WriteFile(filepath.Join(dir, fmt.Sprintf("c03-%d-%d.input", c.Idx, ii)), input, 0o644)
		}
		var rd interface{ Read([]byte) (int, error) }
		cr := mon.NewSchedule(r.Pick("whole", "whole", "large", "small"), input, r.Fork(), nil)
		cr.SpinLimit = 10000
		rd = cr
		var tr omniparser.Transform
		d := func(extra map[string]interface{}) map[string]interface{} {
			m := detail(extra)
			m["input"] = core.Trunc(string(input), 3000)
			m["input_len"] = len(input)
			return m
		}
		if pi := core.Guard(func() {
			tr, err = s.NewTransform("in", rd, &transformctx.Ctx{ExternalProperties: map[string]string{"ext1": "E1", "ext2": "E2"}})
		}); pi != nil {
			c03Panic(c, "NewTransform", pi, d)
			continue
		}
		if err != nil {
			c.Inc("newtransform_errors")
			continue
		}
		bound := len(input) + 2
		reads := 0
		terminal := false
		for reads <= bound+1 {
			var rerr error
			pi := core.Guard(func() { _, rerr = tr.Read() })
			reads++
			c.Inc("reads")
			if pi != nil {
				c03Panic(c, "Read", pi, d)
				terminal = true
				break
			}
			cls := omni.Classify(rerr)
			if cls == omni.EOF || cls == omni.FATAL {
				terminal = true
				c.Inc("terminal:" + cls)
				break
			}
		}
		c.Max("reads_to_terminal", int64(reads))
		if !terminal {
			c.Violate("C03:no-terminal:"+format, fmt.Sprintf("a finite input of %d bytes has not reached a terminal result after %d Reads", len(input), reads), d(nil))
		}
	}
	if c.Idx < 10 {
		c.Sample(map[string]interface{}{"seed": seed.name, "mutation": how, "accepted": true, "format": format})
	}
}

func c03Panic(c *core.Ctx, api string, pi *core.PanicInfo, d func(map[string]interface{}) map[string]interface{}) {
	if strings.Contains(pi.Value, "polled after EOF") {
		c.Violate("C03:spin:"+api, "the library polled the input reader 10000 times after EOF without returning", d(nil))
		return
	}
	c.Violate("panic:"+api+":"+pi.Site+":"+core.PanicClass(pi.Value), api+" panicked: "+core.Trunc(pi.Value, 300), d(map[string]interface{}{"panic": pi.Value, "stack": core.Trunc(pi.Stack, 3500)}))
}
