package props

import (
	"encoding/json"
	"fmt"
	"strings"

	"github.com/jf-tech/omniparser"
	"github.com/jf-tech/omniparser/idr"
	"github.com/jf-tech/omniparser/transformctx"

	"verif/harness/core"
	"verif/harness/gen"
	"verif/harness/mon"
	"verif/harness/omni"
	"verif/harness/ref"
)

// C05 — hierarchical segment/record structure is matched greedily and completely.

func init() {
	core.Register(&core.Prop{
		ID:    "C05",
		Level: "exploration",
		Rule: "each case = one random declaration hierarchy (<=6 declarations, depth <=3, groups whose first member is a group, leaf declarations with children, " +
			"min in {0,1,2}, max in {1,2,unbounded} or format defaults, target at any level incl. groups; csv2/fixedlength2 additionally rows-based and " +
			"header/footer records) for one of edi / csv2 / fixedlength2, run against 60 unit sequences (half derived from the hierarchy and then mutated, " +
			"half random over declared names + an undeclared one; empty input; with and without the final terminator). Each unit carries a unique id. The " +
			"real reader's transcript (delivered target trees with their ancestor chain, then EOF/FATAL) must equal the recursive reference matcher's; no " +
			"unit id may be delivered twice. Thorough tier additionally enumerates every unit sequence of length <=5 over 4 names for each hierarchy. " +
			"A quarter of the hierarchies are 4-6 levels deep with chains of nested groups. " +
			"distinct = digest(hierarchy, sequence); non-trivial = the hierarchy has a group or nesting and the reference took >=1 'does not fit, move on' step and >=1 target was delivered.",
		Assumptions: []string{
			"the reference matcher is the documented greedy, non-backtracking semantics (doc/edi_in_depth.md, csv2/fixedlength2 docs) written recursively, sharing no code with the readers",
			"max=0 is outside the stated quantifier and not generated",
		},
		Cases: func(t core.Tier) int {
			if t == core.Thorough {
				return 60000
			}
			return 1800
		},
		Run: runC05,
		Min: func(t core.Tier) map[string]int64 {
			return map[string]int64{"pairs": 50000, "targets_compared": 30000, "outcome:EOF/EOF": 5000, "outcome:FATAL/FATAL": 5000, "step:group-instance": 5000,
				"step:hit-max": 2000, "step:min-unmet": 2000, "step:repeated-instance": 5000, "unterminated_inputs": 5000, "pairs:edi": 10000, "pairs:csv2": 10000, "pairs:fixedlength2": 10000}
		},
	})
}

type c05Hier struct {
	reader   string
	decls    []*ref.HDecl
	all      []*ref.HDecl
	defMM    map[*ref.HDecl]bool // min/max omitted from the schema (format defaults apply)
	maxDepth int                 // declarations may have children down to this depth (0: 3)
	chain    bool                // prefer a group as the first member of a group (chains of nested groups)
}

var c05Tags = []string{"A", "B", "C", "D"}

func (h *c05Hier) gen(r *core.Rand, depth int, budget *int, gcount *int) []*ref.HDecl {
	n := r.Range(1, 3)
	var out []*ref.HDecl
	for i := 0; i < n && *budget > 0; i++ {
		*budget--
		d := &ref.HDecl{}
		h.all = append(h.all, d)
		maxDepth := h.maxDepth
		if maxDepth == 0 {
			maxDepth = 3
		}
		isGroup := depth < maxDepth && *budget > 0 && (r.Chance(1, 3) || (h.chain && i == 0 && depth > 1 && r.Chance(1, 2)))
		if isGroup {
			*gcount++
			d.Group = true
			d.Name = fmt.Sprintf("G%d", *gcount)
			d.Children = h.gen(r, depth+1, budget, gcount)
			if len(d.Children) == 0 {
				d.Group = false
			}
		}
		if !d.Group {
			d.Tag = c05Tags[r.Intn(len(c05Tags))]
			d.Name = d.Tag
			d.Kind = "tag"
			if h.reader != "edi" {
				switch r.Intn(10) {
				case 0:
					d.Kind, d.Rows, d.Name = "rows", r.Range(1, 2), "R"
				case 1:
					d.Kind, d.Footer = "hf", strings.ToLower(d.Tag)
					if r.Chance(1, 3) {
						d.Footer = d.Tag // the footer pattern also matches the header line: such an instance is that one line
					}
				}
			}
			if depth < maxDepth && *budget > 0 && r.Chance(1, 4) {
				d.Children = h.gen(r, depth+1, budget, gcount)
			}
		}
		// occurrence bounds
		if r.Chance(3, 10) {
			h.defMM[d] = true
			if h.reader == "edi" {
				d.Min, d.Max = 1, 1
			} else {
				d.Min, d.Max = 0, -1
			}
		} else {
			d.Min = r.Intn(3)
			d.Max = []int{1, 2, -1}[r.Intn(3)]
			if d.Max >= 0 && d.Min > d.Max {
				d.Min = d.Max
			}
		}
		out = append(out, d)
	}
	return out
}

func genHier(r *core.Rand, reader string) *c05Hier {
	h := &c05Hier{reader: reader, defMM: map[*ref.HDecl]bool{}}
	if r.Chance(1, 40) {
		// a chain of 10-11 records nested in each other (no groups): deeper than the readers' initial stacks (schema validation
		// of the flat file formats is exponential in the nesting depth, hence no deeper and not often)
		depth := r.Range(10, 11)
		var top, cur *ref.HDecl
		for lvl := 0; lvl < depth; lvl++ {
			d := &ref.HDecl{Tag: c05Tags[lvl%len(c05Tags)], Kind: "tag", Min: r.Intn(2), Max: []int{1, 2, -1}[r.Intn(3)]}
			d.Name = d.Tag
			if lvl == 0 {
				d.Min = 1
			}
			h.all = append(h.all, d)
			if cur == nil {
				top = d
			} else {
				cur.Children = []*ref.HDecl{d}
			}
			cur = d
		}
		h.decls = []*ref.HDecl{top}
		h.all[r.Intn(len(h.all))].Target = true
		return h
	}
	budget := r.Range(1, 6)
	if r.Chance(1, 4) {
		// deeper hierarchies: chains of three and more nested groups
		h.maxDepth, h.chain = r.Range(4, 6), r.Bool()
		budget = r.Range(4, 10)
	}
	g := 0
	h.decls = h.gen(r, 1, &budget, &g)
	h.all[r.Intn(len(h.all))].Target = true
	return h
}

func (h *c05Hier) declJSON(d *ref.HDecl) map[string]interface{} {
	m := map[string]interface{}{"name": d.Name}
	if d.Target {
		m["is_target"] = true
	}
	if !h.defMM[d] {
		m["min"], m["max"] = d.Min, d.Max
	}
	var kids []interface{}
	for _, c := range d.Children {
		kids = append(kids, h.declJSON(c))
	}
	switch h.reader {
	case "edi":
		if d.Group {
			m["type"] = "segment_group"
		} else {
			m["elements"] = []interface{}{map[string]interface{}{"name": "uid", "index": 1}}
		}
		if kids != nil {
			m["child_segments"] = kids
		}
	case "csv2":
		if d.Group {
			m["type"] = "record_group"
		} else {
			col := func(name string, sel map[string]interface{}) map[string]interface{} {
				c := map[string]interface{}{"name": name, "index": 2}
				for k, v := range sel {
					c[k] = v
				}
				return c
			}
			switch d.Kind {
			case "tag":
				m["header"] = "^" + d.Tag + ","
				m["columns"] = []interface{}{col("uid", nil)}
			case "rows":
				m["rows"] = d.Rows
				cols := []interface{}{col("uid", map[string]interface{}{"line_index": 1})}
				if d.Rows == 2 {
					cols = append(cols, col("uid2", map[string]interface{}{"line_index": 2}))
				}
				m["columns"] = cols
			case "hf":
				m["header"], m["footer"] = "^"+d.Tag+",", "^"+d.Footer+","
				m["columns"] = []interface{}{col("uid", map[string]interface{}{"line_pattern": "^" + d.Tag + ","}), col("uidf", map[string]interface{}{"line_pattern": "^" + d.Footer + ","})}
				if d.Footer == d.Tag {
					m["columns"] = []interface{}{col("uid", map[string]interface{}{"line_pattern": "^" + d.Tag + ","})}
				}
			}
		}
		if kids != nil {
			m["child_records"] = kids
		}
	case "fixedlength2":
		if d.Group {
			m["type"] = "envelope_group"
		} else {
			col := func(name string, sel map[string]interface{}) map[string]interface{} {
				c := map[string]interface{}{"name": name, "start_pos": 2, "length": 6}
				for k, v := range sel {
					c[k] = v
				}
				return c
			}
			switch d.Kind {
			case "tag":
				m["header"] = "^" + d.Tag
				m["columns"] = []interface{}{col("uid", nil)}
			case "rows":
				m["rows"] = d.Rows
				cols := []interface{}{col("uid", map[string]interface{}{"line_index": 1})}
				if d.Rows == 2 {
					cols = append(cols, col("uid2", map[string]interface{}{"line_index": 2}))
				}
				m["columns"] = cols
			case "hf":
				m["header"], m["footer"] = "^"+d.Tag, "^"+d.Footer
				m["columns"] = []interface{}{col("uid", map[string]interface{}{"line_pattern": "^" + d.Tag}), col("uidf", map[string]interface{}{"line_pattern": "^" + d.Footer})}
				if d.Footer == d.Tag {
					m["columns"] = []interface{}{col("uid", map[string]interface{}{"line_pattern": "^" + d.Tag})}
				}
			}
		}
		if kids != nil {
			m["child_envelopes"] = kids
		}
	}
	return m
}

func (h *c05Hier) schema() []byte {
	var top []interface{}
	for _, d := range h.decls {
		top = append(top, h.declJSON(d))
	}
	doc := map[string]interface{}{
		"parser_settings":        map[string]interface{}{"version": "omni.2.1", "file_format_type": h.reader},
		"transform_declarations": map[string]interface{}{"FINAL_OUTPUT": map[string]interface{}{"const": "x"}},
	}
	switch h.reader {
	case "edi":
		doc["file_declaration"] = map[string]interface{}{"segment_delimiter": "~", "element_delimiter": "*", "segment_declarations": top}
	case "csv2":
		doc["file_declaration"] = map[string]interface{}{"delimiter": ",", "records": top}
	case "fixedlength2":
		doc["file_declaration"] = map[string]interface{}{"envelopes": top}
	}
	b, _ := json.Marshal(doc)
	return b
}

func (h *c05Hier) render(units []ref.HUnit, terminated bool) []byte {
	var sb strings.Builder
	for i, u := range units {
		last := i == len(units)-1
		switch h.reader {
		case "edi":
			sb.WriteString(u.Tag + "*" + u.ID)
			if !last || terminated {
				sb.WriteString("~")
			}
		case "csv2":
			sb.WriteString(u.Tag + "," + u.ID)
			if !last || terminated {
				sb.WriteString("\n")
			}
		case "fixedlength2":
			sb.WriteString(u.Tag + gen.PadRunes(u.ID, 6, ' '))
			if !last || terminated {
				sb.WriteString("\n")
			}
		}
	}
	return []byte(sb.String())
}

// derive emits a plausible unit sequence by walking the hierarchy.
func (h *c05Hier) derive(r *core.Rand, decls []*ref.HDecl, out *[]string) {
	for _, d := range decls {
		n := d.Min + r.Intn(3)
		if r.Chance(1, 4) && n > 0 {
			n--
		}
		if d.Max >= 0 && n > d.Max {
			n = d.Max
			if r.Chance(1, 6) {
				n++ // one too many
			}
		}
		for i := 0; i < n; i++ {
			ng := d
			for ng.Group && len(ng.Children) > 0 {
				ng = ng.Children[0]
			}
			if !d.Group {
				switch d.Kind {
				case "tag":
					*out = append(*out, d.Tag)
				case "rows":
					for k := 0; k < d.Rows; k++ {
						*out = append(*out, c05Tags[r.Intn(4)])
					}
				case "hf":
					*out = append(*out, d.Tag)
					if d.Footer == d.Tag {
						break
					}
					for k := 0; k < r.Intn(2); k++ {
						*out = append(*out, c05Tags[r.Intn(4)])
					}
					*out = append(*out, d.Footer)
				}
			}
			h.derive(r, d.Children, out)
		}
	}
}

func (h *c05Hier) String() string {
	var f func(ds []*ref.HDecl) string
	f = func(ds []*ref.HDecl) string {
		var parts []string
		for _, d := range ds {
			s := d.Name
			switch d.Kind {
			case "rows":
				s += fmt.Sprintf("(rows=%d)", d.Rows)
			case "hf":
				s += "(.." + d.Footer + ")"
			}
			if d.Group {
				s += "{group}"
			}
			if d.Target {
				s += "*"
			}
			mx := fmt.Sprint(d.Max)
			if d.Max < 0 {
				mx = "inf"
			}
			s += fmt.Sprintf("<%d,%s>", d.Min, mx)
			if len(d.Children) > 0 {
				s += "[" + f(d.Children) + "]"
			}
			parts = append(parts, s)
		}
		return strings.Join(parts, " ")
	}
	return h.reader + ": " + f(h.decls)
}

// realTree renders a delivered node like ref.HNode.String().
func realTree(n *idr.Node) string {
	var sb strings.Builder
	sb.WriteString(n.Data)
	sb.WriteString(realOwnIDs(n))
	first := true
	for c := n.FirstChild; c != nil; c = c.NextSibling {
		if c.Type != idr.ElementNode || c.Data == "uid" || c.Data == "uid2" || c.Data == "uidf" {
			continue
		}
		if first {
			sb.WriteString("[")
			first = false
		} else {
			sb.WriteString(" ")
		}
		sb.WriteString(realTree(c))
	}
	if !first {
		sb.WriteString("]")
	}
	return sb.String()
}

func realOwnIDs(n *idr.Node) string {
	var ids []string
	for _, name := range []string{"uid", "uid2", "uidf"} {
		for c := n.FirstChild; c != nil; c = c.NextSibling {
			if c.Type == idr.ElementNode && c.Data == name {
				ids = append(ids, strings.TrimSpace(c.InnerText()))
			}
		}
	}
	if len(ids) == 0 {
		return ""
	}
	return "#" + strings.Join(ids, ",")
}

func realAncestry(n *idr.Node) string {
	var parts []string
	for p := n.Parent; p != nil && p.Type != idr.DocumentNode; p = p.Parent {
		if p.Data == "#root" {
			continue
		}
		parts = append([]string{p.Data + realOwnIDs(p)}, parts...)
	}
	return strings.Join(parts, "/")
}

func realIDs(n *idr.Node, acc []string) []string {
	for c := n.FirstChild; c != nil; c = c.NextSibling {
		if c.Type != idr.ElementNode {
			continue
		}
		if c.Data == "uid" || c.Data == "uid2" || c.Data == "uidf" {
			acc = append(acc, strings.TrimSpace(c.InnerText()))
		} else {
			acc = realIDs(c, acc)
		}
	}
	return acc
}

func runC05(c *core.Ctx) {
	r := c.R
	reader := []string{"edi", "csv2", "fixedlength2"}[c.Idx%3]
	h := genHier(r, reader)
	schema := h.schema()
	s, err := omni.NewSchema(schema)
	if err != nil {
		c.Inc("schema_rejected")
		if c.Verbose {
			c.Logf("schema rejected: %v\n%s", err, schema)
		}
		return
	}
	c.Inc("hierarchies")
	c.Inc("hierarchies:" + reader)
	hasStructure := false
	for _, d := range h.all {
		if d.Group || len(d.Children) > 0 {
			hasStructure = true
		}
		if d.Group && d.Target {
			c.Inc("hierarchies_with_group_target")
		}
		if d.Group && len(d.Children) > 0 && d.Children[0].Group {
			c.Inc("hierarchies_group_first_member_is_group")
		}
	}
	alphabet := []string{"A", "B", "C", "D", "X"}
	if reader != "edi" {
		alphabet = append(alphabet, "a", "b")
	}
	var seqs [][]string
	nseq := 60
	for i := 0; i < nseq; i++ {
		var tags []string
		if i == 0 {
			// empty input
		} else if i%2 == 0 {
			h.derive(r, h.decls, &tags)
			// mutate
			for m := 0; m < r.Intn(3); m++ {
				switch {
				case len(tags) > 0 && r.Chance(1, 3):
					k := r.Intn(len(tags))
					tags = append(tags[:k], tags[k+1:]...)
				case r.Chance(1, 2):
					k := r.Intn(len(tags) + 1)
					tags = append(tags[:k], append([]string{alphabet[r.Intn(len(alphabet))]}, tags[k:]...)...)
				case len(tags) > 1:
					a, b := r.Intn(len(tags)), r.Intn(len(tags))
					tags[a], tags[b] = tags[b], tags[a]
				}
			}
		} else {
			for k := 0; k < r.Range(1, 8); k++ {
				tags = append(tags, alphabet[r.Intn(len(alphabet))])
			}
		}
		if len(tags) > 24 {
			tags = tags[:24]
		}
		seqs = append(seqs, tags)
	}
	if c.Tier == core.Thorough && c.Idx%3 == c.Idx%9/3 {
		// exhaustive small scope for this hierarchy: every sequence of length <= 5 over 4 names
		names := []string{"A", "B", "C", "X"}
		var rec func(prefix []string)
		rec = func(prefix []string) {
			seqs = append(seqs, append([]string{}, prefix...))
			if len(prefix) == 5 {
				return
			}
			for _, n := range names {
				rec(append(prefix, n))
			}
		}
		rec(nil)
		c.Inc("hierarchies_with_exhaustive_sequences")
	}
	for si, tags := range seqs {
		var units []ref.HUnit
		for i, t := range tags {
			units = append(units, ref.HUnit{Tag: t, ID: fmt.Sprintf("u%d", i+1)})
		}
		terminated := si%2 == 0 || len(units) == 0
		input := h.render(units, terminated)
		want := ref.MatchHierarchy(h.decls, units)
		c.Inc("pairs")
		c.Inc("pairs:" + reader)
		c.Inc("evaluations")
		if !terminated {
			c.Inc("unterminated_inputs")
		}
		for k, v := range want.Steps {
			c.Count("step:"+k, int64(v))
		}
		got, gotTerm, gotMsg := c05Real(s, input, len(units)+3)
		c.Count("targets_compared", int64(len(want.Events)))
		c.Inc("outcome:" + want.Terminal + "/" + gotTerm)
		if hasStructure && want.Steps["does-not-fit-move-on"] > 0 && len(want.Events) > 0 {
			c.Distinct(h.String(), strings.Join(tags, ""), fmt.Sprint(terminated))
		}
		detail := func() map[string]interface{} {
			var ge, we []string
			for _, e := range got {
				ge = append(ge, e.Ancestry+" :: "+e.Tree)
			}
			for _, e := range want.Events {
				we = append(we, e.Ancestry+" :: "+e.Tree)
			}
			return map[string]interface{}{"reader": reader, "hierarchy": h.String(), "schema": string(schema), "input": string(input), "units": strings.Join(tags, " "),
				"final_terminator": terminated, "reference_targets": we, "reference_terminal": want.Terminal + " " + want.Why,
				"reader_targets": ge, "reader_terminal": gotTerm + " " + gotMsg}
		}
		cause := ""
		if !terminated {
			cause = ":unterminated-last-unit"
		}
		// does the transcript match the recorded deviation "the whole top-level list starts over" exactly?
		sameAs := func(w *ref.HResult) bool {
			if len(got) != len(w.Events) || gotTerm != w.Terminal {
				return false
			}
			for i := range got {
				if got[i].Tree != w.Events[i].Tree || got[i].Ancestry != w.Events[i].Ancestry {
					return false
				}
			}
			return true
		}
		if !sameAs(want) {
			if alt := ref.MatchHierarchyRepeatingTop(h.decls, units); alt.Steps["top-level-restarted"] > 0 && sameAs(alt) {
				c.Violate("C05:"+reader+":top-level-hierarchy-starts-over", "after the declared top-level structure is complete, a unit that fits the first top-level declaration starts the whole hierarchy over instead of being rejected", detail())
				continue
			}
		}
		// no unit delivered twice
		seen := map[string]bool{}
		dup := ""
		for _, e := range got {
			for _, id := range e.IDs {
				if seen[id] {
					dup = id
				}
				seen[id] = true
			}
		}
		switch {
		case dup != "":
			c.Violate("C05:"+reader+":unit-delivered-twice"+cause, "input unit "+dup+" appears in two delivered targets", detail())
		case len(got) != len(want.Events):
			c.Violate("C05:"+reader+":target-count"+cause+":"+want.Terminal+"->"+gotTerm, fmt.Sprintf("reader delivered %d targets, the greedy matcher delivers %d", len(got), len(want.Events)), detail())
		default:
			bad := false
			for i := range got {
				if got[i].Tree != want.Events[i].Tree {
					c.Violate("C05:"+reader+":target-content"+cause, fmt.Sprintf("delivered target %d does not contain exactly the units that belong to it", i), detail())
					bad = true
					break
				}
				if got[i].Ancestry != want.Events[i].Ancestry {
					c.Violate("C05:"+reader+":target-ancestors"+cause, fmt.Sprintf("delivered target %d hangs under different ancestor instances", i), detail())
					bad = true
					break
				}
			}
			if !bad && gotTerm != want.Terminal {
				c.Violate("C05:"+reader+":terminal"+cause+":"+want.Terminal+"->"+gotTerm, "reader ends with "+gotTerm+" where the greedy matcher ends with "+want.Terminal+" ("+want.Why+")", detail())
			}
		}
		if c.Idx < 9 && si == 2 {
			c.Sample(map[string]interface{}{"hierarchy": h.String(), "units": strings.Join(tags, " "), "reference_terminal": want.Terminal + " " + want.Why, "targets": len(want.Events)})
		}
	}
}

func c05Real(s omniparser.Schema, input []byte, maxReads int) ([]ref.HEvent, string, string) {
	tr, err := s.NewTransform("in", strings.NewReader(string(input)), &transformctx.Ctx{})
	if err != nil {
		return nil, "FATAL", "NewTransform: " + err.Error()
	}
	var evs []ref.HEvent
	for i := 0; i < maxReads+5; i++ {
		_, err := tr.Read()
		cls := omni.Classify(err)
		switch cls {
		case omni.OK:
			rr, rerr := tr.RawRecord()
			if rerr != nil {
				return evs, "FATAL", "RawRecord failed: " + rerr.Error()
			}
			n := rr.Raw().(*idr.Node)
			// the delivered node must be part of a sound tree before anything walks it (a cyclic or half-released structure would
			// otherwise hang the comparison instead of being reported)
			if _, problem := mon.AuditTree(mon.RootOf(n), 500000); problem != "" {
				return evs, "UNSOUND", "the tree of delivered target " + fmt.Sprint(len(evs)) + " is not a sound tree: " + problem
			}
			evs = append(evs, ref.HEvent{Tree: realTree(n), Ancestry: realAncestry(n), IDs: realIDs(n, nil)})
		case omni.FAIL:
			return evs, "FAIL", err.Error()
		default:
			return evs, cls, err.Error()
		}
	}
	return evs, "LIMIT", "no terminal result"
}
