package props

import (
	"encoding/json"
	"fmt"
		"reflect"
	"strconv"
	"strings"

	"github.com/jf-tech/omniparser/idr"

	"verif/harness/core"
	"verif/harness/gen"
	"verif/harness/omni"
	"verif/harness/ref"
)

// C08 — JSON and XML documents are represented faithfully in the node tree.

func init() {
	core.Register(&core.Prop{
		ID:    "C08",
		Level: "exploration",
		Rule: "each case = one generated document. JSON: logical value -> own serialiser (random whitespace/escapes/number spellings) -> idr tree of the whole " +
			"document -> J2NodeToInterface must deep-equal encoding/json's decoding of the same bytes; plus end-to-end `copy` of every element of a records array. " +
			"XML: logical document -> own serialiser -> idr tree compared node-by-node with a mirror built from the standard decoder's Token/RawToken streams. " +
			"distinct = digest of the document bytes; non-trivial = JSON with a container / XML with >=3 elements.",
		Assumptions: []string{
			"encoding/json and encoding/xml decoders are the reference for what a document means",
			"JSON documents contain no duplicate keys; each XML namespace URI is bound to one prefix (the standard decoder does not report lexical prefixes through Token())",
			"xmlns:* declaration attributes are represented with prefix 'xmlns' and empty URI, as the code documents",
		},
		Cases: func(t core.Tier) int {
			if t == core.Thorough {
				return 600000
			}
			return 12000
		},
		Run: runC08,
		Min: func(t core.Tier) map[string]int64 {
			return map[string]int64{"json_docs": 3000, "xml_docs": 2000, "json:empty_key": 50, "json:empty_object": 100, "xml:mixed_content": 100,
				"xml:namespaced": 100, "copy_records": 1000}
		},
	})
}

func runC08(c *core.Ctx) {
	switch c.Idx % 5 {
	case 0, 1:
		c08JSONDoc(c)
	case 2:
		c08JSONCopy(c)
	default:
		c08XML(c)
	}
}

func jsonTreeOf(doc string, xpath string) (*idr.Node, error) {
	sr, err := idr.NewJSONStreamReader(strings.NewReader(doc), xpath)
	if err != nil {
		return nil, err
	}
	return sr.Read()
}

func c08JSONDoc(c *core.Ctx) {
	r := c.R
	c.Inc("json_docs")
	v := gen.GenJSON(r, gen.JSONOpts{MaxDepth: r.Range(1, 8), MaxFan: r.Range(1, 5), EmptyKeys: true, NastyStr: true}, 0)
	doc := gen.EncodeJSON(r, v, r.Bool())
	var want interface{}
	if err := json.Unmarshal([]byte(doc), &want); err != nil {
		c.Inconclusive("harness serialiser produced JSON the standard decoder rejects: " + err.Error() + ": " + core.Trunc(doc, 200))
		return
	}
	feats := map[string]bool{}
	v.Features(feats)
	for f := range feats {
		c.Inc("json:" + f)
	}
	c.Count("json_values", int64(v.Count()))
	if v.Kind == gen.JArr || v.Kind == gen.JObj {
		c.Distinct("json", doc)
	}
	n, err := jsonTreeOf(doc, ".")
	if err != nil {
		c.Violate("C08:json-read-error", "reading a valid JSON document failed: "+err.Error(), map[string]interface{}{"doc": doc, "error": err.Error()})
		return
	}
	got := idr.J2NodeToInterface(n, true)
	if !reflect.DeepEqual(got, want) {
		gb, _ := json.Marshal(got)
		wb, _ := json.Marshal(want)
		c.Violate("C08:json-roundtrip:"+jsonDiffClass(got, want, feats), "node tree of a JSON document does not convert back to an equal value",
			map[string]interface{}{"doc": doc, "tree_converts_to": string(gb), "standard_decoder": string(wb)})
	}
	// the tree's own JSON rendering (what `_node` and the record checksum are made of) must be JSON, and an equal value too
	c.Inc("json_renderings_checked")
	text := idr.JSONify2(n)
	var back interface{}
	if err := json.Unmarshal([]byte(text), &back); err != nil {
		c.Violate("C08:json-rendering-is-not-json", "the JSON rendering of the node tree of a JSON document is not valid JSON: "+err.Error(),
			map[string]interface{}{"doc": doc, "rendering": core.Trunc(text, 2000)})
	} else if !reflect.DeepEqual(back, want) {
		wb, _ := json.Marshal(want)
		c.Violate("C08:json-rendering:"+jsonDiffClass(back, want, feats), "the JSON rendering of the node tree of a JSON document is not an equal JSON value",
			map[string]interface{}{"doc": doc, "rendering": core.Trunc(text, 2000), "standard_decoder": string(wb)})
	}
	if c.Idx < 10 {
		c.Sample(map[string]interface{}{"kind": "json", "doc": core.Trunc(doc, 300)})
	}
}

// jsonDiffClass names the kind of disagreement (used in the violation signature, so that different root causes stay distinct).
func jsonDiffClass(got, want interface{}, feats map[string]bool) string {
	var cls string
	var walk func(g, w interface{})
	walk = func(g, w interface{}) {
		if cls != "" || reflect.DeepEqual(g, w) {
			return
		}
		switch wv := w.(type) {
		case map[string]interface{}:
			gm, ok := g.(map[string]interface{})
			if !ok {
				cls = fmt.Sprintf("object-became-%s", kindName(g))
				if _, has := wv[""]; has {
					cls += "(has-empty-key)"
				}
				return
			}
			for k, v := range wv {
				gv, ok := gm[k]
				if !ok {
					cls = "missing-key"
					return
				}
				walk(gv, v)
			}
			if cls == "" && len(gm) != len(wv) {
				cls = "extra-key"
			}
		case []interface{}:
			ga, ok := g.([]interface{})
			if !ok {
				cls = fmt.Sprintf("array-became-%s", kindName(g))
				return
			}
			if len(ga) != len(wv) {
				cls = "array-length"
				return
			}
			for i := range wv {
				walk(ga[i], wv[i])
			}
		default:
			cls = fmt.Sprintf("%s-became-%s", kindName(w), kindName(g))
		}
	}
	walk(got, want)
	if cls == "" {
		cls = "other"
	}
	return cls
}

func kindName(v interface{}) string {
	switch v.(type) {
	case nil:
		return "null"
	case bool:
		return "bool"
	case float64:
		return "number"
	case string:
		return "string"
	case []interface{}:
		return "array"
	case map[string]interface{}:
		return "object"
	}
	return fmt.Sprintf("%T", v)
}

var c08CopySchema = `{
 "parser_settings": {"version": "omni.2.1", "file_format_type": "json"},
 "transform_declarations": {
  "FINAL_OUTPUT": {"xpath": "/recs/*", "custom_func": {"name": "copy"}, "keep_empty_or_null": true, "no_trim": true}
 }
}`

func c08JSONCopy(c *core.Ctx) {
	r := c.R
	// records: elements of an array property
	n := r.Range(1, 6)
	var recs []*gen.JV
	for i := 0; i < n; i++ {
		recs = append(recs, gen.GenJSON(r, gen.JSONOpts{MaxDepth: r.Range(1, 5), MaxFan: 4, EmptyKeys: true, NastyStr: true}, 0))
	}
	top := &gen.JV{Kind: gen.JObj, Keys: []string{"hdr", "recs", "tail"}, Vals: []*gen.JV{{Kind: gen.JStr, S: "h"}, {Kind: gen.JArr, Arr: recs}, {Kind: gen.JNum, Num: "1"}}}
	doc := gen.EncodeJSON(r, top, r.Bool())
	var want struct {
		Recs []interface{} `json:"recs"`
	}
	if err := json.Unmarshal([]byte(doc), &want); err != nil {
		c.Inconclusive("harness serialiser produced invalid JSON: " + err.Error())
		return
	}
	s, err := omni.NewSchema([]byte(c08CopySchema))
	if err != nil {
		c.Inconclusive("copy schema rejected: " + err.Error())
		return
	}
	tr := omni.RunAll(s, strings.NewReader(doc), omni.RunOpts{MaxReads: n + 5})
	reads := tr.Reads()
	if len(reads) != n+1 || reads[n].Class != omni.EOF {
		c.Violate("C08:copy-record-count", fmt.Sprintf("expected %d records then EOF, got classes %q", n, tr.Classes()),
			map[string]interface{}{"doc": doc, "transcript": tr.Short(10)})
		return
	}
	for i := 0; i < n; i++ {
		c.Inc("copy_records")
		if reads[i].Class != omni.OK {
			c.Violate("C08:copy-failed", "copy of a JSON record failed: "+reads[i].ErrMsg, map[string]interface{}{"doc": doc, "record": i, "error": reads[i].ErrMsg})
			continue
		}
		var got interface{}
		if err := json.Unmarshal([]byte(reads[i].Bytes), &got); err != nil {
			c.Violate("C08:copy-invalid-json", "Read returned invalid JSON", map[string]interface{}{"doc": doc, "bytes": reads[i].Bytes})
			continue
		}
		if !reflect.DeepEqual(got, want.Recs[i]) {
			wb, _ := json.Marshal(want.Recs[i])
			feats := map[string]bool{}
			recs[i].Features(feats)
			c.Violate("C08:copy:"+jsonDiffClass(got, want.Recs[i], feats), "copy does not reproduce the JSON record",
				map[string]interface{}{"doc": doc, "record_index": i, "copy_output": reads[i].Bytes, "standard_decoder": string(wb)})
		}
	}
	c.Distinct("copy", doc)
}

// canonIDR renders an XML idr tree in the same canonical shape as ref.MNode.String().
func canonIDR(n *idr.Node, sb *strings.Builder) {
	q := strconv.Quote
	switch n.Type {
	case idr.DocumentNode:
		sb.WriteString("DOC")
	case idr.ElementNode:
		fs, _ := n.FormatSpecific.(idr.XMLSpecific)
		sb.WriteString("E(" + q(fs.NamespacePrefix) + "," + q(fs.NamespaceURI) + "," + q(n.Data) + ")")
	case idr.AttributeNode:
		fs, _ := n.FormatSpecific.(idr.XMLSpecific)
		val := "<malformed attribute node>"
		if n.FirstChild != nil && n.FirstChild == n.LastChild && n.FirstChild.Type == idr.TextNode {
			val = q(n.FirstChild.Data)
		}
		sb.WriteString("A(" + q(fs.NamespacePrefix) + "," + q(fs.NamespaceURI) + "," + q(n.Data) + "=" + val + ")")
		return
	case idr.TextNode:
		sb.WriteString("T(" + q(n.Data) + ")")
		return
	}
	sb.WriteString("[")
	for ch := n.FirstChild; ch != nil; ch = ch.NextSibling {
		canonIDR(ch, sb)
	}
	sb.WriteString("]")
}

// mirrorCanon renders the mirror with the documented mapping for xmlns:* declaration attributes.
func mirrorCanon(m *ref.MNode, sb *strings.Builder) {
	q := strconv.Quote
	switch m.Kind {
	case "doc":
		sb.WriteString("DOC")
	case "elem":
		sb.WriteString("E(" + q(m.Prefix) + "," + q(m.Space) + "," + q(m.Local) + ")")
	case "attr":
		space := m.Space
		if m.Space == "xmlns" {
			space = ""
		}
		sb.WriteString("A(" + q(m.Prefix) + "," + q(space) + "," + q(m.Local) + "=" + q(m.Value) + ")")
		return
	case "text":
		sb.WriteString("T(" + q(m.Value) + ")")
		return
	}
	sb.WriteString("[")
	for _, a := range m.Attrs {
		mirrorCanon(a, sb)
	}
	for _, ch := range m.Children {
		mirrorCanon(ch, sb)
	}
	sb.WriteString("]")
}

// xmlTreeOf reads the document element with target xpath "." and returns the document node. The tree is complete up to
// the end tag of the document element (what follows it is outside the comparison: the reader would release the
// document element before delivering it).
func xmlTreeOf(doc string) (*idr.Node, error) {
	sr, err := idr.NewXMLStreamReader(strings.NewReader(doc), ".")
	if err != nil {
		return nil, err
	}
	n, err := sr.Read()
	if err != nil {
		return nil, err
	}
	root := n
	for root.Parent != nil {
		root = root.Parent
	}
	return root, nil
}

func c08XML(c *core.Ctx) {
	r := c.R
	c.Inc("xml_docs")
	o := gen.XMLOpts{MaxDepth: r.Range(1, 5), MaxFan: r.Range(1, 4), Names: []string{"a", "b", "c", "item", "x"}, Namespaces: r.Chance(2, 3), Mixed: r.Bool(),
		Noise: r.Bool(), AttrProb: r.Intn(8)}
	root := gen.GenXML(r, o)
	doc := gen.EncodeXML(r, root, r.Bool())
	m, err := ref.BuildXMLMirror([]byte(doc))
	if err != nil {
		c.Inconclusive("harness XML serialiser produced a document the standard decoder rejects: " + err.Error() + ": " + core.Trunc(doc, 300))
		return
	}
	els := root.Elements()
	c.Count("xml_elements", int64(len(els)))
	if o.Namespaces {
		c.Inc("xml:namespaced")
	}
	if o.Mixed {
		c.Inc("xml:mixed_content")
	}
	if o.Noise {
		c.Inc("xml:comments_pi_cdata")
	}
	if len(els) >= 3 {
		c.Distinct("xml", doc)
	}
	// The mirror of the document element only: xmlTreeOf reads with target "." which selects the document element;
	// text outside of it (prolog whitespace) is attached to the document node by both sides.
	n, err := xmlTreeOf(doc)
	if err != nil {
		c.Violate("C08:xml-read-error", "reading a well-formed XML document failed: "+err.Error(), map[string]interface{}{"doc": doc, "error": err.Error()})
		return
	}
	// drop what follows the document element in the mirror (see xmlTreeOf)
	for i, ch := range m.Children {
		if ch.Kind == "elem" {
			m.Children = m.Children[:i+1]
			break
		}
	}
	var a, b strings.Builder
	canonIDR(n, &a)
	mirrorCanon(m, &b)
	if a.String() != b.String() {
		c.Violate("C08:xml-tree:"+xmlDiffClass(a.String(), b.String()), "node tree of an XML document differs from what the standard decoder reports",
			map[string]interface{}{"doc": doc, "idr_tree": a.String(), "mirror": b.String()})
	}
	if c.Idx < 10 {
		c.Sample(map[string]interface{}{"kind": "xml", "doc": core.Trunc(doc, 400)})
	}
}

// xmlDiffClass: which constructor differs first (E/A/T) in the canonical strings.
func xmlDiffClass(a, b string) string {
	i := 0
	for i < len(a) && i < len(b) && a[i] == b[i] {
		i++
	}
	// walk back to the start of the enclosing token
	j := i
	if j >= len(b) {
		j = len(b) - 1
	}
	for j > 0 && !(b[j] == '(' && (b[j-1] == 'E' || b[j-1] == 'A' || b[j-1] == 'T')) {
		j--
	}
	if j > 0 {
		return string(b[j-1])
	}
	return "structure"
}
