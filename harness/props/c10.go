package props

import (
	"bytes"
	"fmt"
	"regexp"

	"verif/harness/core"
	"verif/harness/gen"
	"verif/harness/omni"
)

// C10 — records are transformed independently; a failing record affects only itself.

func init() {
	core.Register(&core.Prop{
		ID:    "C10",
		Level: "exploration",
		Rule: "each case = one record list (2-40 records, deliberately similar neighbours, shorter-after-longer rows) of one format and a schema that addresses " +
			"only the record's own subtree (pass-through, casts, templates, arrays, custom functions, javascript / javascript_with_context on the record). " +
			"Metamorphic relations over per-position results (bytes + checksum; failures by class and message with the location prefix masked): " +
			"T(A++B) = T(A)++T(B) for random split points; T(perm(A)) = perm(T(A)) for random permutations, rotations, transpositions; replacing record i by " +
			"one that fails (type cast / custom function error / two matches under an object field) changes exactly position i into a per-record failure. " +
			"A third of the runs are preceded by unrelated (namespaced XML, typed JSON, javascript) transforms in the same process. " +
			"distinct = digest(format, schema, list, relation); non-trivial = list has >= 3 records.",
		Assumptions: []string{
			"only the location prefix of error messages (line / segment / character numbers) is masked: positions legitimately shift when records move",
		},
		Cases: func(t core.Tier) int {
			if t == core.Thorough {
				return 70000
			}
			return 1750
		},
		Run: runC10,
		Min: func(t core.Tier) map[string]int64 {
			return map[string]int64{"relations": 5000, "rel:concat": 800, "rel:permute": 800, "rel:fail-replace": 400, "failkind:cast": 100, "failkind:func": 100, "failkind:multimatch": 20}
		},
	})
}

var locMaskRe = regexp.MustCompile(`^input 'in' (line \d+|at segment no\.\d+ \(char\[\d+,\d+\]\)|before/near line \d+|near line \d+): `)

type posResult struct {
	Class, Bytes, Checksum, Err string
}

// transformList renders the list and returns one result per record position (nil + reason if the run did not end in EOF
// after exactly len(list) results).
func transformList(c *core.Ctx, k *gen.Kit, schema []byte, recs []gen.Rec, o gen.RenderOpts, wantResults ...int) ([]posResult, string, []byte) {
	r := core.NewRand(uint64(len(recs))*7919 + 13) // formatting choices inside Render must not depend on the list order
	input := k.Render(r, recs, o)
	s, err := omni.NewSchema(schema)
	if err != nil {
		return nil, "schema rejected: " + err.Error(), input
	}
	if c.R.Chance(1, 3) {
		// somebody else's records go through the process-wide pools and caches first
		omni.RunForeign()
		c.Inc("lists_transformed_after_foreign_transforms")
	}
	held := -1
	tr := omni.RunAll(s, bytes.NewReader(input), omni.RunOpts{MaxReads: len(recs) + 10, Held: &held})
	if held >= 0 {
		// a record's output is the caller's: reading further records must not change it
		c.Violate("C10:returned-bytes-changed-by-later-reads", fmt.Sprintf("the bytes Read returned for result %d were changed by later Reads", held),
			map[string]interface{}{"format": k.Format, "schema": string(schema), "input": core.Trunc(string(input), 2000), "result_index": held, "bytes_at_return": tr[held].Bytes})
	}
	c.Inc("runs_holding_the_returned_slices")
	reads := tr.Reads()
	if len(reads) == 0 || reads[len(reads)-1].Class != omni.EOF {
		return nil, "run did not end in EOF: " + core.Trunc(tr.Classes(), 200) + " / " + core.Trunc(reads[len(reads)-1].ErrMsg, 200), input
	}
	reads = reads[:len(reads)-1]
	want := len(recs)
	if len(wantResults) > 0 {
		want = wantResults[0]
	}
	if len(reads) != want {
		return nil, fmt.Sprintf("%d results for %d records (%d expected)", len(reads), len(recs), want), input
	}
	out := make([]posResult, len(reads))
	for i, st := range reads {
		out[i] = posResult{Class: st.Class, Bytes: st.Bytes, Checksum: st.Checksum, Err: locMaskRe.ReplaceAllString(st.ErrMsg, "input 'in' @LOC: ")}
	}
	return out, "", input
}

func runC10(c *core.Ctx) {
	r := c.R
	format := gen.Formats[c.Idx%len(gen.Formats)]
	k := gen.NewKit(r, format)
	mode := r.Pick(gen.ModePass, gen.ModeFailing, gen.ModeFailing, gen.ModeFailFn, gen.ModeFailFn, gen.ModeFailFn, gen.ModeRich, gen.ModeRich, gen.ModeCopy)
	schema := k.Schema(mode)
	n := r.Range(2, 40)
	if c.Tier == core.Quick {
		n = r.Range(2, 16)
	}
	var recs []gen.Rec
	base := k.GenRec(r, 0)
	for i := 0; i < n; i++ {
		rec := k.GenRec(r, i)
		if r.Chance(1, 2) {
			// similar neighbour: same content as the base record except the id and one field
			rec.F = append([]string{}, base.F...)
			rec.Num = base.Num
			if len(rec.F) > 0 && r.Bool() {
				rec.F[r.Intn(len(rec.F))] = k.GenVal(r, 4)
			}
		}
		if (format == "csv" || format == "csv2") && r.Chance(1, 4) {
			rec.Short = r.Range(1, 2)
		}
		if (mode == gen.ModeFailing || mode == gen.ModeFailFn) && r.Chance(1, 8) {
			rec.Num = "x"
		}
		recs = append(recs, rec)
	}
	o := gen.RenderOpts{BlankLines: r.Chance(1, 4), CRLF: r.Chance(1, 4)}
	full, why, input := transformList(c, k, schema, recs, o)
	if full == nil {
		c.Inconclusive("baseline for " + format + "/" + mode + ": " + why + " input=" + core.Trunc(string(input), 300))
		return
	}
	c.Inc("lists")
	c.Inc("lists:" + format)
	c.Count("records", int64(n))
	detail := func(rel string, other []gen.Rec, extra map[string]interface{}) map[string]interface{} {
		d := map[string]interface{}{"format": format, "mode": mode, "schema": string(schema), "relation": rel, "input_full": core.Trunc(string(input), 3000),
			"input_other": core.Trunc(string(k.Render(core.NewRand(uint64(len(other))*7919+13), other, o)), 3000)}
		for kk, v := range extra {
			d[kk] = v
		}
		return d
	}
	note := func(rel string) {
		c.Inc("relations")
		c.Inc("evaluations")
		c.Inc("rel:" + rel)
		if n >= 3 {
			c.Distinct(format, string(schema), string(input), rel)
		}
	}
	// (a) concatenation at 1-2 split points
	for t := 0; t < 2; t++ {
		sp := r.Range(1, n-1)
		a, whyA, _ := transformList(c, k, schema, recs[:sp], o)
		b, whyB, _ := transformList(c, k, schema, recs[sp:], o)
		if a == nil || b == nil {
			c.Violate("C10:"+format+":concat:part-run-failed", "a part of the list does not transform to completion although the whole list does: "+whyA+whyB,
				detail("concat", recs[:sp], map[string]interface{}{"split": sp}))
			continue
		}
		note("concat")
		ab := append(append([]posResult{}, a...), b...)
		for i := range full {
			if ab[i] != full[i] {
				c.Violate("C10:"+format+":concat:"+posDiff(ab[i], full[i]), fmt.Sprintf("T(A++B) differs from T(A)++T(B) at position %d (split %d)", i, sp),
					detail("concat", recs[:sp], map[string]interface{}{"split": sp, "position": i, "in_whole_list": full[i], "in_part": ab[i]}))
				break
			}
		}
	}
	// (b) permutation
	for t := 0; t < 2; t++ {
		var perm []int
		switch r.Intn(3) {
		case 0:
			perm = r.Perm(n)
		case 1: // rotation
			sh := r.Range(1, n-1)
			for i := 0; i < n; i++ {
				perm = append(perm, (i+sh)%n)
			}
		default: // transposition
			for i := 0; i < n; i++ {
				perm = append(perm, i)
			}
			i, j := r.Intn(n), r.Intn(n)
			perm[i], perm[j] = perm[j], perm[i]
		}
		pl := make([]gen.Rec, n)
		for i, p := range perm {
			pl[i] = recs[p]
		}
		pr, whyP, _ := transformList(c, k, schema, pl, o)
		if pr == nil {
			c.Violate("C10:"+format+":permute:run-failed", "a permutation of the list does not transform to completion: "+whyP, detail("permute", pl, nil))
			continue
		}
		note("permute")
		for i, p := range perm {
			if pr[i] != full[p] {
				c.Violate("C10:"+format+":permute:"+posDiff(pr[i], full[p]), fmt.Sprintf("record %d gives a different result at position %d of the permuted list", p, i),
					detail("permute", pl, map[string]interface{}{"perm": perm, "original_position": p, "new_position": i, "original": full[p], "permuted": pr[i]}))
				break
			}
		}
	}
	// (c) replace one record by a failing one
	if mode == gen.ModeFailing || mode == gen.ModeFailFn {
		i := r.Intn(n)
		fl := append([]gen.Rec{}, recs...)
		bad := fl[i]
		bad.F = append([]string{}, bad.F...)
		kind := "cast"
		switch {
		case mode == gen.ModeFailFn && r.Bool():
			kind = "func"
			bad.F[0] = gen.PadRunes(omni.FailMarker, 3, '!')
			if k.Widths != nil && k.Widths[2] < 5 {
				kind = "cast"
				bad.F = append([]string{}, recs[i].F...)
				bad.Num = "x"
			}
			bad.Short = 0
		case format == "xml" && r.Chance(2, 3):
			kind = "multimatch"
			bad.Dup = true
		default:
			bad.Num = "x"
		}
		if kind == "func" {
			bad.F[0] = omni.FailMarker
		}
		fl[i] = bad
		fr, whyF, _ := transformList(c, k, schema, fl, o)
		if fr == nil {
			c.Violate("C10:"+format+":fail-replace:run-failed", "replacing one record by a failing one stops the whole run: "+whyF, detail("fail-replace", fl, map[string]interface{}{"position": i, "kind": kind}))
		} else {
			note("fail-replace")
			c.Inc("failkind:" + kind)
			for j := range fr {
				if j == i {
					if fr[j].Class != omni.FAIL {
						c.Violate("C10:"+format+":fail-replace:not-a-failure:"+kind, fmt.Sprintf("record %d was replaced by a failing one (%s) but its result is %s", i, kind, fr[j].Class),
							detail("fail-replace", fl, map[string]interface{}{"position": i, "kind": kind, "result": fr[j]}))
					}
					continue
				}
				if fr[j] != full[j] {
					c.Violate("C10:"+format+":fail-replace:neighbour-changed:"+posDiff(fr[j], full[j]), fmt.Sprintf("failing record at position %d changed the result at position %d", i, j),
						detail("fail-replace", fl, map[string]interface{}{"failing_position": i, "kind": kind, "position": j, "before": full[j], "after": fr[j]}))
					break
				}
			}
		}
	}
	// (d) records that are not targets (rejected by FINAL_OUTPUT's filter) leave no trace: T(L with non-targets put in) == T(L)
	if (mode == gen.ModePass || mode == gen.ModeFailing || mode == gen.ModeRich) && format != "fixed-length" && format != "fixedlength2" {
		// (fixed-length columns carry their padding, so the kits' filter on n rejects nothing there)
		fschema := k.Schema(gen.ModeFilter)
		var targets []gen.Rec
		for _, rec := range recs {
			if rec.Num != "0" {
				targets = append(targets, rec)
			}
		}
		var mixed []gen.Rec
		inserted := 0
		for i, rec := range targets {
			if r.Chance(1, 3) {
				nt := k.GenRec(r, 1000+i)
				nt.Num = "0"
				nt.Dup = false
				if format == "csv" || format == "csv2" {
					nt.F = append(nt.F, "surplus column of a non-target", "another one") // longer than its neighbours
				}
				mixed = append(mixed, nt)
				inserted++
			}
			if (format == "csv" || format == "csv2") && r.Chance(1, 3) {
				rec.Short = r.Range(1, 2)
			}
			targets[i] = rec
			mixed = append(mixed, rec)
		}
		if inserted > 0 && len(targets) > 0 {
			want, whyW, _ := transformList(c, k, fschema, targets, o)
			got, whyG, in2 := transformList(c, k, fschema, mixed, o, len(targets))
			switch {
			case want == nil:
				c.Inc("filter_relation_baseline_unavailable:" + core.Trunc(whyW, 40))
			case got == nil:
				c.Violate("C10:"+format+":non-targets-change-the-run", "putting records in that FINAL_OUTPUT's filter rejects changed how the run ends: "+whyG,
					map[string]interface{}{"format": format, "schema": string(fschema), "input_with_non_targets": core.Trunc(string(in2), 3000)})
			default:
				note("non-targets-inserted")
				for j := range want {
					if got[j] != want[j] {
						c.Violate("C10:"+format+":non-targets-inserted:"+posDiff(got[j], want[j]), fmt.Sprintf("putting in records that are not targets changed result %d", j),
							map[string]interface{}{"format": format, "schema": string(fschema), "input_with_non_targets": core.Trunc(string(in2), 3000), "position": j, "without": want[j], "with": got[j]})
						break
					}
				}
			}
		}
	}
	if c.Idx < 14 {
		c.Sample(map[string]interface{}{"format": format, "mode": mode, "records": n, "input": core.Trunc(string(input), 240)})
	}
}

func posDiff(a, b posResult) string {
	switch {
	case a.Class != b.Class:
		return "class:" + b.Class + "->" + a.Class
	case a.Bytes != b.Bytes:
		return "bytes"
	case a.Checksum != b.Checksum:
		return "checksum"
	default:
		return "error-text"
	}
}
