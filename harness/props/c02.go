package props

import (
	"bytes"
	"encoding/json"
	"errors"
	"strings"

	"github.com/jf-tech/omniparser"
	v21 "github.com/jf-tech/omniparser/extensions/omniv21"
	"github.com/jf-tech/omniparser/idr"
	"github.com/jf-tech/omniparser/transformctx"

	"verif/harness/core"
	"verif/harness/gen"
	"verif/harness/mon"
	"verif/harness/omni"
	"verif/harness/ref"
)

// C02 — emitted JSON equals the documented evaluation of FINAL_OUTPUT.

func init() {
	core.Register(&core.Prop{
		ID:    "C02",
		Level: "exploration",
		Rule: "each case = one generated rich schema (declaration trees of depth <=5 over const / external / field / object / array / template / custom_func with " +
			"shared templates used at several cursors, textually identical declarations at different positions and routes, xpath and xpath_dynamic, object " +
			"keys with '.' and '%', all type / no_trim / keep_empty_or_null combinations, arrays whose children have 0/1/many matches, empty object/array " +
			"templates) x the records of one input (all seven formats; nested xml/json with repeated and nested same-name children). For every record Read's " +
			"bytes are compared with the value an independent reference evaluator computes from the schema text and a mirror of the live record tree " +
			"(xpaths answered by antchfx/xmlquery's navigator; no caches; no code shared with the transform package); both must fail or both succeed. " +
			"distinct = digest(schema, record); non-trivial = schema has >=3 declaration kinds and an xpath-bearing declaration.",
		Assumptions: []string{
			"antchfx/xpath (engine) and the harness's own function models are trusted; `copy`'s rendering of a node is C08's subject and taken as given",
			"outcomes the docs do not determine (failing xpath_dynamic, failing argument under ignore_error) are skipped, not guessed; javascript (C20) and date functions (C19) are not generated here",
			"a kept empty array may be emitted as null or []",
		},
		Cases: func(t core.Tier) int {
			if t == core.Thorough {
				return 60000
			}
			return 1500
		},
		Run: runC02,
		Min: func(t core.Tier) map[string]int64 {
			return map[string]int64{"records_compared": 5000, "outcome:ok/ok": 2000, "outcome:fail/fail": 300, "schemas_with_duplicated_declarations": 500,
				"ref:kind:object": 5000, "ref:kind:array": 2000, "ref:kind:custom_func": 3000, "ref:template_inlined": 2000, "ref:anchor:no-match": 1000,
				"ref:anchor:multiple-matches": 100, "ref:array:xpath-child": 1000}
		},
	})
}

func runC02(c *core.Ctx) {
	r := c.R
	w := genRichWork(c, r, false, r.Chance(1, 2))
	c.Logf("format=%s\nschema=%s\ninput=%s", w.format, w.schema, core.Trunc(string(w.input), 1500))
	decls, err := ref.ParseDecls(w.schema)
	if err != nil {
		c.Inconclusive("reference cannot parse the generated schema: " + err.Error())
		return
	}
	// a third of the schemas are bound to a second custom function table that gives some of the same names to other functions
	alt := r.Chance(1, 3)
	s, err := omni.NewSchema(w.schema)
	if alt {
		s, err = omni.NewSchemaAlt(w.schema)
		c.Inc("schemas_bound_to_the_alternative_function_table")
	}
	if err != nil {
		c.Inc("schema_rejected")
		return
	}
	c.Inc("schemas")
	c.Inc("schemas:" + w.format)
	if w.stats["duplicated_declarations"] > 0 {
		c.Inc("schemas_with_duplicated_declarations")
	}
	kinds := 0
	for _, k := range []string{"const", "external", "field", "object", "array", "template_ref", "custom_func"} {
		if w.stats[k] > 0 {
			kinds++
		}
	}
	tr, err := s.NewTransform("in", bytes.NewReader(w.input), &transformctx.Ctx{ExternalProperties: w.ext})
	if err != nil {
		c.Inc("newtransform_errors")
		return
	}
	for i := 0; i < 200; i++ {
		b, rerr := tr.Read()
		cls := omni.Classify(rerr)
		if cls == omni.EOF || cls == omni.FATAL {
			break
		}
		if cls == omni.FAIL && !strings.Contains(rerr.Error(), "fail to transform") {
			continue // a reader-level failure, not a transform outcome
		}
		// the live record: after a failed transform the transform wrapper hides it, so take it from the ingester hook-free way:
		// RawRecord only works after success; for failures re-read is impossible, so the reference needs the node from the success path
		// or from the verif ingester accessor.
		node := liveRecord(tr)
		if node == nil {
			c.Inc("no_live_record")
			continue
		}
		root := mon.RootOf(node)
		mroot, fwd, back := ref.Mirror(root)
		_ = mroot
		ev := &ref.Evaluator{Decls: decls, Externals: w.ext, ToIDR: back, Stats: map[string]int{}, Alt: alt}
		want, werr := ev.Eval(fwd[node])
		for k, v := range ev.Stats {
			c.Count("ref:"+k, int64(v))
		}
		if errors.Is(werr, ref.ErrUnspecified) {
			c.Inc("records_with_unspecified_outcome")
			continue
		}
		c.Inc("records_compared")
		c.Inc("evaluations")
		if kinds >= 3 {
			c.Distinct(string(w.schema), omni.NodeString(node))
		}
		detail := func(extra map[string]interface{}) map[string]interface{} {
			wb, _ := json.Marshal(want)
			d := map[string]interface{}{"format": w.format, "schema": string(w.schema), "record_index": i, "record_tree": core.Trunc(omni.NodeString(node), 2000),
				"read_bytes": string(b), "reference_value": string(wb)}
			if rerr != nil {
				d["read_error"] = rerr.Error()
			}
			if werr != nil {
				d["reference_error"] = werr.Error()
			}
			for k, v := range extra {
				d[k] = v
			}
			return d
		}
		switch {
		case werr != nil && cls == omni.FAIL:
			c.Inc("outcome:fail/fail")
		case werr != nil:
			c.Violate("C02:record-should-fail:"+c02FailClass(werr), "the documented rules fail this record ("+werr.Error()+") but Read delivered a value", detail(nil))
		case cls == omni.FAIL:
			c.Violate("C02:record-should-succeed:"+c02ErrClass(rerr.Error()), "Read failed a record the documented rules transform", detail(nil))
		default:
			c.Inc("outcome:ok/ok")
			var got interface{}
			if err := json.Unmarshal(b, &got); err != nil {
				c.Violate("C02:invalid-json", "Read returned invalid JSON", detail(nil))
				continue
			}
			if !ref.EqualJSON(want, got) {
				cls := c02DiffClass(want, got)
				if wb, _ := json.Marshal(want); strings.Contains(string(b), `"touched_by_script":true`) && !strings.Contains(string(wb), "touched_by_script") {
					cls = "cached-value-shared-with-a-script-that-writes-into-it" // the recognisable shape of one recorded defect (known_findings.json)
				}
				c.Violate("C02:value:"+cls, "emitted JSON differs from the documented evaluation of FINAL_OUTPUT", detail(map[string]interface{}{"differs_at": c02DiffPath(want, got, "$")}))
			}
		}
	}
	if c.Idx < 8 {
		c.Sample(map[string]interface{}{"format": w.format, "constructs": w.stats, "schema": core.Trunc(string(w.schema), 500)})
	}
}

func c02FailClass(err error) string {
	s := err.Error()
	for _, k := range []string{"more than one match", "missing external", "type conversion", "xpath failed", "not a string", "number of arguments", "too few", "is not a", "refused", "invalid syntax", "parsing"} {
		if strings.Contains(s, k) {
			return strings.ReplaceAll(k, " ", "-")
		}
	}
	return "other"
}

func c02ErrClass(s string) string {
	for _, k := range []string{"more than one result", "cannot find external", "unable to convert", "xpath query", "not usable as", "expects", "failed:"} {
		if strings.Contains(s, k) {
			return strings.ReplaceAll(k, " ", "-")
		}
	}
	return "other"
}

// c02DiffPath finds the first path at which reference and emitted value differ.
func c02DiffPath(ref0, got interface{}, path string) string {
	if ref.EqualJSON(ref0, got) {
		return ""
	}
	switch r := ref0.(type) {
	case map[string]interface{}:
		g, ok := got.(map[string]interface{})
		if !ok {
			return path
		}
		for k, v := range r {
			gv, ok := g[k]
			if !ok {
				return path + "." + k + " (missing in output)"
			}
			if p := c02DiffPath(v, gv, path+"."+k); p != "" {
				return p
			}
		}
		for k := range g {
			if _, ok := r[k]; !ok {
				return path + "." + k + " (extra in output)"
			}
		}
	case []interface{}:
		g, ok := got.([]interface{})
		if !ok || len(g) != len(r) {
			return path + " (array length)"
		}
		for i := range r {
			if p := c02DiffPath(r[i], g[i], path+"["+string(rune('0'+i%10))+"]"); p != "" {
				return p
			}
		}
	}
	return path
}

func c02DiffClass(want, got interface{}) string {
	p := c02DiffPath(want, got, "$")
	switch {
	case strings.Contains(p, "missing in output"):
		return "missing-key"
	case strings.Contains(p, "extra in output"):
		return "extra-key"
	case strings.Contains(p, "array length"):
		return "array-length"
	}
	return "different-value"
}

// liveRecord returns the record node the last Read worked on, also when its transform failed (verif hooks).
func liveRecord(tr omniparser.Transform) *idr.Node {
	ing := omniparser.VerifIngester(tr)
	if ing == nil {
		return nil
	}
	return v21.VerifCurrentRecord(ing)
}

var _ = gen.Formats
