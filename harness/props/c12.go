package props

import (
	"fmt"
	"runtime"
	"strings"
	"sync"

	"github.com/jf-tech/omniparser"
	"github.com/jf-tech/omniparser/idr"
	"github.com/jf-tech/omniparser/transformctx"

	"verif/harness/core"
	"verif/harness/gen"
	"verif/harness/mon"
	"verif/harness/omni"
)

// C12 — node trees stay structurally sound and pooled nodes are never aliased.

func init() {
	core.Register(&core.Prop{
		ID:    "C12",
		Level: "exploration",
		Race:  true,
		Rule: "three monitors. (1) random CreateNode/AddChild/RemoveAndReleaseTree histories (200 ops, forests) in lock-step with an abstract ordered-tree " +
			"model, full structural audit of every live tree after every operation, blankness/fresh-ID/no-double-owner check on every acquisition, " +
			"released pointers never reachable. (2) every record tree handed out by the seven readers audited; previous record's nodes must not be " +
			"reachable with their old IDs after the next Read. (3) G goroutines running private histories against the shared pool and ID counter under " +
			"the race detector; all IDs pairwise distinct. The reader audit goes on past continuable errors (malformed csv lines, failing transforms). distinct = digest of the operation history / input; non-trivial = history in which the pool " +
			"handed back at least one previously released pointer (or, for readers, >=2 records).",
		Assumptions: []string{
			"the harness owns every node it creates through the public idr API; readers own theirs (audited through RawRecord().Raw())",
			"race detection is only as good as the interleavings the runs produced (Go race detector, halt_on_error=0, reports de-duplicated)",
		},
		Cases: func(t core.Tier) int {
			if t == core.Thorough {
				return 60000
			}
			return 1600
		},
		Run:      runC12,
		Parallel: 8,
		Min: func(t core.Tier) map[string]int64 {
			return map[string]int64{"ops": 100000, "audits": 100000, "pool_reuse": 5000, "reader_records": 1000, "racing_acquisitions": 50000,
				"remove:first": 500, "remove:middle": 500, "remove:last": 500, "remove:only": 500, "remove:root": 500}
		},
		Finish: func(a *core.Agg) {
			a.Extra["race_reports"] = a.Counters["race_reports"]
		},
	})
}

func runC12(c *core.Ctx) {
	switch c.Idx % 8 {
	case 0, 1, 2, 3:
		c12History(c, c.R, 200, nil)
	case 4, 5:
		c12Readers(c)
	default:
		c12Racing(c)
	}
}

// ---- global (per process) ID registry: a growable bitset, IDs come from a dense counter ----

type idSet struct {
	mu   sync.Mutex
	bits []uint64
	big  map[int64]struct{}
}

var c12IDs idSet

// add returns false if the id was already present.
func (s *idSet) add(id int64) bool {
	s.mu.Lock()
	defer s.mu.Unlock()
	if id < 0 || id > 1<<33 {
		if s.big == nil {
			s.big = map[int64]struct{}{}
		}
		if _, dup := s.big[id]; dup {
			return false
		}
		s.big[id] = struct{}{}
		return true
	}
	w := int(id >> 6)
	for w >= len(s.bits) {
		s.bits = append(s.bits, make([]uint64, len(s.bits)+1024)...)
	}
	m := uint64(1) << uint(id&63)
	if s.bits[w]&m != 0 {
		return false
	}
	s.bits[w] |= m
	return true
}

// ---- monitor 1: abstract ordered-tree model ----

type mnode struct {
	ptr      *idr.Node
	id       int64
	typ      idr.NodeType
	data     string
	fs       interface{}
	parent   *mnode
	children []*mnode
}

type c12Model struct {
	c        *core.Ctx
	r        *core.Rand
	roots    []*mnode
	live     map[*idr.Node]*mnode
	released map[*idr.Node]int64 // pointer -> ID it had when released
	log      []string
	reuse    int
	racing   bool
	failed   bool
}

func (m *c12Model) fail(sig, what string) {
	if m.failed {
		return
	}
	m.failed = true
	logTail := m.log
	if len(logTail) > 60 {
		logTail = logTail[len(logTail)-60:]
	}
	m.c.Violate("C12:"+sig, what, map[string]interface{}{"history_tail": logTail, "op_index": len(m.log)})
}

func (m *c12Model) allLive() []*mnode {
	var out []*mnode
	var walk func(n *mnode)
	walk = func(n *mnode) {
		out = append(out, n)
		for _, ch := range n.children {
			walk(ch)
		}
	}
	for _, r := range m.roots {
		walk(r)
	}
	return out
}

func (m *c12Model) create() *mnode {
	r := m.r
	typ := idr.NodeType(r.Intn(4))
	data := "n" + fmt.Sprint(len(m.log))
	var n *idr.Node
	var fs interface{}
	kind := r.Intn(4)
	switch kind {
	case 0:
		fs = idr.XMLSpecific{NamespacePrefix: "p", NamespaceURI: "urn:p"}
		n = idr.CreateXMLNode(typ, data, fs.(idr.XMLSpecific))
	case 1:
		fs = idr.JSONProp
		n = idr.CreateJSONNode(typ, data, idr.JSONProp)
	default:
		n = idr.CreateNode(typ, data)
	}
	m.log = append(m.log, fmt.Sprintf("create kind=%d -> %p id=%d", kind, n, n.ID))
	m.c.Inc("ops")
	m.c.Inc("acquisitions")
	if n == nil {
		m.fail("create-nil", "CreateNode returned nil")
		return nil
	}
	if old, isLive := m.live[n]; isLive {
		m.fail("double-owner", fmt.Sprintf("CreateNode handed out %p which is still attached/owned as live node id=%d data=%q", n, old.id, old.data))
		return nil
	}
	if oldID, was := m.released[n]; was {
		m.reuse++
		m.c.Inc("pool_reuse")
		delete(m.released, n)
		if n.ID == oldID {
			m.fail("stale-id-on-reuse", fmt.Sprintf("recycled node %p was handed out again with the ID (%d) of its previous life", n, oldID))
			return nil
		}
	}
	if n.Parent != nil || n.FirstChild != nil || n.LastChild != nil || n.PrevSibling != nil || n.NextSibling != nil {
		m.fail("not-blank-links", fmt.Sprintf("freshly obtained node %p still has tree links", n))
		return nil
	}
	if n.Type != typ || n.Data != data {
		m.fail("not-blank-type-data", fmt.Sprintf("freshly obtained node has Type=%v Data=%q, asked for %v %q", n.Type, n.Data, typ, data))
		return nil
	}
	if kind >= 2 && n.FormatSpecific != nil {
		m.fail("not-blank-formatspecific", fmt.Sprintf("freshly obtained generic node carries FormatSpecific=%v from a previous life", n.FormatSpecific))
		return nil
	}
	if !c12IDs.add(n.ID) {
		m.fail("duplicate-id", fmt.Sprintf("acquisition returned ID %d which an earlier acquisition in this process already carried", n.ID))
		return nil
	}
	mn := &mnode{ptr: n, id: n.ID, typ: typ, data: data, fs: fs}
	m.live[n] = mn
	m.roots = append(m.roots, mn)
	return mn
}

func (m *c12Model) isDescendant(anc, n *mnode) bool {
	for p := n; p != nil; p = p.parent {
		if p == anc {
			return true
		}
	}
	return false
}

func (m *c12Model) addChild() {
	all := m.allLive()
	if len(m.roots) < 1 || len(all) < 1 {
		return
	}
	var child *mnode
	if len(m.roots) >= 2 && m.r.Chance(1, 3) {
		child = m.roots[m.r.Intn(len(m.roots))]
	} else {
		child = m.create()
		if child == nil {
			return
		}
	}
	all = m.allLive()
	// pick a parent that is not inside child's own tree
	var cands []*mnode
	for _, n := range all {
		if !m.isDescendant(child, n) {
			cands = append(cands, n)
		}
	}
	if len(cands) == 0 {
		return
	}
	parent := cands[m.r.Intn(len(cands))]
	idr.AddChild(parent.ptr, child.ptr)
	m.log = append(m.log, fmt.Sprintf("addchild parent=%p child=%p", parent.ptr, child.ptr))
	m.c.Inc("ops")
	// model
	for i, r := range m.roots {
		if r == child {
			m.roots = append(m.roots[:i], m.roots[i+1:]...)
			break
		}
	}
	child.parent = parent
	parent.children = append(parent.children, child)
}

func (m *c12Model) remove() {
	all := m.allLive()
	if len(all) == 0 {
		return
	}
	n := all[m.r.Intn(len(all))]
	// bias towards interesting positions
	pos := "root"
	if n.parent != nil {
		sibs := n.parent.children
		switch {
		case len(sibs) == 1:
			pos = "only"
		case sibs[0] == n:
			pos = "first"
		case sibs[len(sibs)-1] == n:
			pos = "last"
		default:
			pos = "middle"
		}
	}
	m.c.Inc("remove:" + pos)
	size := 0
	var mark func(x *mnode)
	mark = func(x *mnode) {
		size++
		delete(m.live, x.ptr)
		m.released[x.ptr] = x.id
		for _, ch := range x.children {
			mark(ch)
		}
	}
	idr.RemoveAndReleaseTree(n.ptr)
	m.log = append(m.log, fmt.Sprintf("remove %p (%s, subtree)", n.ptr, pos))
	m.c.Inc("ops")
	mark(n)
	m.c.Count("released_nodes", int64(size))
	if n.parent == nil {
		for i, r := range m.roots {
			if r == n {
				m.roots = append(m.roots[:i], m.roots[i+1:]...)
				break
			}
		}
	} else {
		sibs := n.parent.children
		for i, s := range sibs {
			if s == n {
				n.parent.children = append(sibs[:i:i], sibs[i+1:]...)
				break
			}
		}
	}
}

// audit compares every live tree with the model.
func (m *c12Model) audit() {
	m.c.Inc("audits")
	for _, root := range m.roots {
		nodes, problem := mon.AuditTree(root.ptr, 100000)
		m.c.Count("nodes_audited", int64(len(nodes)))
		if problem != "" {
			m.fail("structure:"+c12ProblemClass(problem), "structural audit failed: "+problem)
			return
		}
		for _, n := range nodes {
			if _, rel := m.released[n]; rel {
				m.fail("released-reachable", fmt.Sprintf("released node %p is still reachable from a live tree", n))
				return
			}
		}
		var cmp func(mn *mnode) bool
		cmp = func(mn *mnode) bool {
			n := mn.ptr
			if n.ID != mn.id {
				m.fail("live-id-changed", fmt.Sprintf("live node %p changed ID %d -> %d (recycled while still owned?)", n, mn.id, n.ID))
				return false
			}
			if n.Type != mn.typ || n.Data != mn.data || !fsEqual(n.FormatSpecific, mn.fs) {
				m.fail("live-content-changed", fmt.Sprintf("live node %p content changed: %v %q %v, model %v %q %v", n, n.Type, n.Data, n.FormatSpecific, mn.typ, mn.data, mn.fs))
				return false
			}
			i := 0
			for ch := n.FirstChild; ch != nil; ch = ch.NextSibling {
				if i >= len(mn.children) || mn.children[i].ptr != ch {
					m.fail("child-list", fmt.Sprintf("children of %p differ from the model at position %d", n, i))
					return false
				}
				i++
			}
			if i != len(mn.children) {
				m.fail("child-list", fmt.Sprintf("node %p lists %d children, model has %d", n, i, len(mn.children)))
				return false
			}
			for _, ch := range mn.children {
				if !cmp(ch) {
					return false
				}
			}
			return true
		}
		if !cmp(root) {
			return
		}
	}
}

func fsEqual(a, b interface{}) bool { return fmt.Sprint(a) == fmt.Sprint(b) }

func c12ProblemClass(p string) string {
	for _, k := range []string{"reachable twice", "runaway", "nil-ness", "FirstChild has a PrevSibling", "LastChild has a NextSibling", "has Parent", "PrevSibling does not mirror", "LastChild is not the end", "root has"} {
		if strings.Contains(p, k) {
			return strings.ReplaceAll(k, " ", "-")
		}
	}
	return "other"
}

func c12History(c *core.Ctx, r *core.Rand, nops int, onCreate func()) *c12Model {
	m := &c12Model{c: c, r: r, live: map[*idr.Node]*mnode{}, released: map[*idr.Node]int64{}}
	for i := 0; i < nops && !m.failed; i++ {
		switch k := r.Intn(10); {
		case k < 2:
			m.create()
		case k < 7:
			m.addChild()
		default:
			m.remove()
		}
		// keep the forest small so that a full audit after every operation stays cheap
		for len(m.live) > 80 && !m.failed {
			m.remove()
		}
		m.audit()
	}
	// release everything we still own
	for len(m.roots) > 0 && !m.failed {
		n := m.roots[0]
		idr.RemoveAndReleaseTree(n.ptr)
		m.roots = m.roots[1:]
	}
	if !m.racing {
		c.Inc("histories")
		if m.reuse > 0 {
			c.Distinct("history", strings.Join(m.log, "|"))
		}
		if c.Idx < 8 {
			tail := m.log
			if len(tail) > 12 {
				tail = tail[:12]
			}
			c.Sample(map[string]interface{}{"monitor": "model-lockstep", "first_ops": tail, "pool_reuse_events": m.reuse})
		}
	}
	return m
}

// ---- monitor 2: reader audit ----

func c12Readers(c *core.Ctx) {
	r := c.R
	format := gen.Formats[(c.Idx/8)%len(gen.Formats)]
	k := gen.NewKit(r, format)
	n := r.Range(2, 30)
	var recs []gen.Rec
	for i := 0; i < n; i++ {
		rec := k.GenRec(r, i)
		if r.Chance(1, 5) {
			rec.Num = "0" // filtered out under ModeFilter
		}
		recs = append(recs, rec)
	}
	mode := r.Pick(gen.ModePass, gen.ModeFilter, gen.ModeCopy, gen.ModeFailing)
	if mode == gen.ModeFailing {
		for i := range recs {
			if r.Chance(1, 4) {
				recs[i].Num = "x" // this record's transform fails (continuable)
			}
		}
	}
	input := k.Render(r, recs, gen.RenderOpts{BlankLines: r.Bool()})
	if (format == "csv" || format == "csv2") && r.Chance(1, 3) {
		// lines the reader itself rejects with a continuable error (a bare quote in an unquoted field), between records
		for t := 0; t < r.Range(1, 3); t++ {
			var ends []int
			for i, b := range input {
				if b == '\n' {
					ends = append(ends, i+1)
				}
			}
			if len(ends) < 2 {
				break
			}
			pos := ends[r.Intn(len(ends))]
			bad := []byte("bad\"quote" + k.Delim + "1\n")
			input = append(append(append([]byte{}, input[:pos]...), bad...), input[pos:]...)
			c.Inc("reader_inputs_with_malformed_lines")
		}
	}
	schemaText := k.Schema(mode)
	if (format == "edi" || format == "csv2" || format == "fixedlength2") && r.Chance(1, 2) {
		// the hierarchy readers over generated hierarchies (nested records and groups, finite and open bounds, any target)
		h := genHier(r, format)
		var tags []string
		h.derive(r, h.decls, &tags)
		schemaText, input = h.schema(), c03RenderUnits(h, tags)
		n = len(tags)
		c.Inc("reader_inputs_over_generated_hierarchies")
	}
	s, err := omni.NewSchema(schemaText)
	if err != nil {
		c.Inconclusive("kit schema rejected: " + err.Error())
		return
	}
	tr, err := s.NewTransform("in", strings.NewReader(string(input)), &transformctx.Ctx{})
	if err != nil {
		c.Inconclusive("NewTransform failed on kit input: " + err.Error())
		return
	}
	type pid struct {
		p  *idr.Node
		id int64
	}
	var prev []pid
	got := 0
	detail := func() map[string]interface{} {
		return map[string]interface{}{"format": format, "schema": string(schemaText), "input": core.Trunc(string(input), 3000)}
	}
	for i := 0; i < 2*n+10; i++ {
		_, err := tr.Read()
		if err != nil {
			if omni.Classify(err) == omni.FAIL {
				c.Inc("reader_continuable_errors") // the stream goes on: the next record's tree is audited like any other
				continue
			}
			break
		}
		rr, rerr := tr.RawRecord()
		if rerr != nil {
			break
		}
		node, ok := rr.Raw().(*idr.Node)
		if !ok || node == nil {
			break
		}
		got++
		c.Inc("reader_records")
		c.Inc("reader_records:" + format)
		root := mon.RootOf(node)
		nodes, problem := mon.AuditTree(root, 1000000)
		c.Inc("audits")
		c.Count("nodes_audited", int64(len(nodes)))
		if problem != "" {
			c.Violate("C12:reader-structure:"+format+":"+c12ProblemClass(problem), "tree handed out by the "+format+" reader failed the structural audit: "+problem, detail())
			return
		}
		ids := map[int64]bool{}
		reach := map[*idr.Node]int64{}
		for _, x := range nodes {
			if ids[x.ID] {
				c.Violate("C12:reader-duplicate-id:"+format, fmt.Sprintf("two nodes of one %s tree carry ID %d", format, x.ID), detail())
				return
			}
			ids[x.ID] = true
			reach[x] = x.ID
		}
		for _, p := range prev {
			if id, still := reach[p.p]; still && id == p.id {
				c.Violate("C12:reader-released-reachable:"+format, fmt.Sprintf("node %p (ID %d) of the previous record is still reachable after the next Read", p.p, p.id), detail())
				return
			}
		}
		prev = prev[:0]
		sub, _ := auditSub(node)
		for _, x := range sub {
			prev = append(prev, pid{x, x.ID})
		}
	}
	// the format reader is asked again after its end (through the ingester, which does not latch): it must keep answering EOF without
	// giving anything back to the pool a second time - what it gives back shows in the acquisitions that follow
	if ing := omniparser.VerifIngester(tr); ing != nil && r.Chance(1, 2) {
		for j := 0; j < r.Range(1, 3); j++ {
			core.Guard(func() { ing.Read() })
		}
		c.Inc("reader_reads_past_the_end")
		var fresh []*idr.Node
		seenPtr := map[*idr.Node]bool{}
		for j := 0; j < 64; j++ {
			x := idr.CreateNode(idr.ElementNode, "probe")
			if seenPtr[x] {
				c.Violate("C12:reader-past-end:node-acquired-twice:"+format, fmt.Sprintf("after the %s reader was read past its end, two acquisitions returned the same node %p", format, x), detail())
				break
			}
			seenPtr[x] = true
			fresh = append(fresh, x)
		}
		for _, x := range fresh {
			idr.RemoveAndReleaseTree(x)
		}
	}
	if got >= 2 {
		c.Distinct("reader", format, string(input))
	}
	if c.Idx < 16 {
		c.Sample(map[string]interface{}{"monitor": "reader-audit", "format": format, "records_audited": got, "input": core.Trunc(string(input), 200)})
	}
}

func auditSub(n *idr.Node) ([]*idr.Node, string) {
	var out []*idr.Node
	var walk func(x *idr.Node)
	walk = func(x *idr.Node) {
		out = append(out, x)
		if len(out) > 1000000 {
			return
		}
		for ch := x.FirstChild; ch != nil; ch = ch.NextSibling {
			walk(ch)
		}
	}
	walk(n)
	return out, ""
}

// ---- monitor 3: racing acquisitions ----

func c12Racing(c *core.Ctx) {
	r := c.R
	G := []int{2, 4, 16, 64}[r.Intn(4)]
	procs := []int{1, 2, 4, 16}[r.Intn(4)]
	old := runtime.GOMAXPROCS(procs)
	defer runtime.GOMAXPROCS(old)
	nops := 4000 / G
	if nops < 40 {
		nops = 40
	}
	var wg sync.WaitGroup
	subs := make([]*core.Ctx, G)
	models := make([]*c12Model, G)
	for g := 0; g < G; g++ {
		wg.Add(1)
		gr := r.Fork()
		go func(g int) {
			defer wg.Done()
			// each goroutine records into a private scratch context; merged below (the monitor's own state is never shared)
			sc := core.ScratchCtx(c)
			subs[g] = sc
			m := &c12Model{c: sc, r: gr, live: map[*idr.Node]*mnode{}, released: map[*idr.Node]int64{}, racing: true}
			models[g] = m
			for i := 0; i < nops && !m.failed; i++ {
				switch k := gr.Intn(10); {
				case k < 3:
					m.create()
				case k < 7:
					m.addChild()
				default:
					m.remove()
				}
				for len(m.live) > 40 && !m.failed {
					m.remove()
				}
				if i%4 == 0 {
					m.audit()
					runtime.Gosched()
				}
			}
			for len(m.roots) > 0 && !m.failed {
				idr.RemoveAndReleaseTree(m.roots[0].ptr)
				m.roots = m.roots[1:]
			}
		}(g)
	}
	wg.Wait()
	for _, sc := range subs {
		core.MergeScratch(c, sc)
	}
	c.Count("racing_acquisitions", c12Sum(subs, "acquisitions"))
	c.Inc(fmt.Sprintf("racing_runs:G=%d,procs=%d", G, procs))
	c.Distinct("racing", fmt.Sprint(G, procs, c.Idx))
	if c.Idx < 16 {
		c.Sample(map[string]interface{}{"monitor": "racing", "goroutines": G, "gomaxprocs": procs, "ops_per_goroutine": nops})
	}
}

func c12Sum(subs []*core.Ctx, name string) int64 {
	var t int64
	for _, s := range subs {
		t += core.CounterOf(s, name)
	}
	return t
}
