package props

import (
	"bytes"
	"encoding/json"
	"fmt"
	"strings"

	"github.com/jf-tech/go-corelib/caches"
	"github.com/jf-tech/omniparser"
	v21 "github.com/jf-tech/omniparser/extensions/omniv21"
	v21cf "github.com/jf-tech/omniparser/extensions/omniv21/customfuncs"
	"github.com/jf-tech/omniparser/idr"
	"github.com/jf-tech/omniparser/transformctx"

	"verif/harness/core"
	"verif/harness/gen"
	"verif/harness/omni"
)

// C13 — caches and pools are semantically invisible.

func init() {
	core.Register(&core.Prop{
		ID:    "C13",
		Level: "exploration",
		Rule: "each case = one generated rich schema (textually identical declarations at different positions and routes, templates reused at several " +
			"cursors, xpath_dynamic, javascript with repeated scripts, javascript_with_context on the record, on descendants and on ancestors) x one " +
			"multi-record input (nested xml/json with groups whose content changes between records, or a flat kit of any of the seven formats), run " +
			"under K0 all caches on; K1 node pool off; K2 javascript caches off; K3 every LRU (xpath, regexp, js program, node-JSON) shrunk to one " +
			"entry; K4 every cache and the node pool emptied after every Read; K6 = K1+K2; plus K5 online: after every Read the same live record is " +
			"re-evaluated with the per-record result cache disabled (and, as a control, enabled) through the verif hook. All transcripts must equal K0's. " +
			"Half of the K0 runs are preceded by unrelated (XML, JSON, javascript) transforms; schemas include failing xpath_dynamic declarations with identical twins, lenient/strict twins, javascript typeof probes and throwing scripts. " +
			"distinct = digest(schema, input); non-trivial = >=2 records and a schema with a duplicated declaration, template or javascript.",
		Assumptions: []string{
			"cache switches are process-global; cases run sequentially inside a child process and restore every switch before returning",
			"VerifReparse (build tag verif) evaluates FINAL_OUTPUT with the real ParseNode on the ingester's live record",
		},
		Cases: func(t core.Tier) int {
			if t == core.Thorough {
				return 60000
			}
			return 1500
		},
		Run: runC13,
		Min: func(t core.Tier) map[string]int64 {
			return map[string]int64{"config_runs": 2000, "k5_reparse_comparisons": 3000, "schemas_with_duplicated_declarations": 200, "schemas_with_js": 100,
				"schemas_with_ancestor_paths": 50, "pool_reuse_observed": 50}
		},
	})
}

type c13Work struct {
	format string
	schema []byte
	input  []byte
	stats  map[string]int
	ext    map[string]string
}

func genRichWork(c *core.Ctx, r *core.Rand, js, up bool) *c13Work {
	w := &c13Work{ext: map[string]string{"ext1": "E1", "ext2": " e2 "}}
	var vocab *gen.Vocab
	var target string
	var doc map[string]interface{}
	if r.Chance(1, 2) {
		nf := r.Pick("xml", "json")
		nw := gen.GenNested(r, nf, r.Range(1, 4), 6, r.Bool())
		w.format, w.input, vocab, target = nf, nw.Input, nw.Vocab(), nw.Target
		doc = map[string]interface{}{"parser_settings": map[string]interface{}{"version": "omni.2.1", "file_format_type": nf}}
	} else {
		f := gen.Formats[r.Intn(len(gen.Formats))]
		k := gen.NewKit(r, f)
		n := r.Range(3, 25)
		var recs []gen.Rec
		for i := 0; i < n; i++ {
			rec := k.GenRec(r, i)
			if len(rec.F) > 0 && r.Chance(1, 5) {
				rec.F[r.Intn(len(rec.F))] = omni.FailMarker // vf_fail refuses this value
			}
			recs = append(recs, rec)
		}
		w.format, w.input, vocab = f, k.Render(r, recs, gen.RenderOpts{BlankLines: r.Chance(1, 3)}), k.FlatVocab()
		json.Unmarshal(k.Schema(gen.ModePass), &doc)
		if fo, ok := doc["transform_declarations"].(map[string]interface{})["FINAL_OUTPUT"].(map[string]interface{}); ok {
			if xp, ok := fo["xpath"].(string); ok {
				target = xp
			}
		}
		if f == "json" || f == "xml" {
			up = false // flat kits have fixed ancestors
		}
	}
	decls, stats := gen.GenRichDecls(r, vocab, gen.RichOpts{MaxDepth: r.Range(2, 5), JS: js, AllowUp: up, HarnessFns: true, Copy: true, FailFn: r.Chance(1, 2), Externals: []string{"ext1", "ext2", "missing"}})
	if target != "" {
		decls["FINAL_OUTPUT"].(gen.D)["xpath"] = target
	}
	doc["transform_declarations"] = decls
	w.schema, _ = json.MarshalIndent(doc, "", " ")
	w.stats = stats
	return w
}

type c13Config struct {
	name    string
	apply   func() func() // returns restore
	perRead func()
}

func c13Configs() []c13Config {
	return []c13Config{
		{name: "K1-node-pool-off", apply: func() func() {
			prev := idr.VerifSetNodeCaching(false)
			return func() { idr.VerifSetNodeCaching(prev) }
		}},
		{name: "K2-js-caches-off", apply: func() func() {
			prev := v21cf.VerifSetDisableCaching(true)
			return func() { v21cf.VerifSetDisableCaching(prev) }
		}},
		{name: "K3-lru-capacity-one", apply: func() func() {
			x, re, jp, nj := caches.XPathExprCache, caches.RegexCache, v21cf.JSProgramCache, v21cf.NodeToJSONCache
			caches.XPathExprCache, caches.RegexCache = caches.NewLoadingCache(1), caches.NewLoadingCache(1)
			v21cf.JSProgramCache, v21cf.NodeToJSONCache = caches.NewLoadingCache(1), caches.NewLoadingCache(1)
			return func() {
				caches.XPathExprCache, caches.RegexCache, v21cf.JSProgramCache, v21cf.NodeToJSONCache = x, re, jp, nj
			}
		}},
		{name: "K4-emptied-after-every-read", apply: func() func() { return func() {} }, perRead: func() {
			idr.VerifResetNodePool()
			v21cf.VerifResetCaches()
			caches.XPathExprCache = caches.NewLoadingCache()
			caches.RegexCache = caches.NewLoadingCache()
		}},
		{name: "K6-pool-off+js-caches-off", apply: func() func() {
			p1 := idr.VerifSetNodeCaching(false)
			p2 := v21cf.VerifSetDisableCaching(true)
			return func() { idr.VerifSetNodeCaching(p1); v21cf.VerifSetDisableCaching(p2) }
		}},
	}
}

// runConfig drives one transform; k5 additionally performs the online reparse comparison.
func c13Run(c *core.Ctx, s omniparser.Schema, w *c13Work, perRead func(), k5 bool) (omni.Transcript, []map[string]interface{}) {
	var t omni.Transcript
	var k5viol []map[string]interface{}
	tr, err := s.NewTransform("in", bytes.NewReader(w.input), &transformctx.Ctx{ExternalProperties: w.ext})
	if err != nil {
		return omni.Transcript{{Op: "NewTransform", Class: omni.FATAL, ErrMsg: err.Error()}}, nil
	}
	for i := 0; i < 3000; i++ {
		st := omni.ReadStep(tr, true)
		t = append(t, st)
		if k5 && (st.Class == omni.OK || (st.Class == omni.FAIL && strings.Contains(st.ErrMsg, "fail to transform"))) {
			ing := omniparser.VerifIngester(tr)
			for _, disable := range []bool{true, false} {
				b, rerr := v21.VerifReparse(ing, disable)
				c.Inc("k5_reparse_comparisons")
				same := false
				switch {
				case st.Class == omni.OK:
					same = rerr == nil && string(b) == st.Bytes
				default:
					same = rerr != nil && strings.HasSuffix(st.ErrMsg, rerr.Error())
				}
				if !same {
					es := ""
					if rerr != nil {
						es = rerr.Error()
					}
					k5viol = append(k5viol, map[string]interface{}{"record_index": i, "result_cache_disabled": disable, "read": st, "reparse_bytes": string(b), "reparse_error": es})
				}
			}
		}
		if perRead != nil {
			perRead()
		}
		if st.Class == omni.EOF || st.Class == omni.FATAL {
			t = append(t, omni.ReadStep(tr, true))
			break
		}
	}
	return t, k5viol
}

func runC13(c *core.Ctx) {
	r := c.R
	w := genRichWork(c, r, r.Chance(2, 3), r.Chance(1, 2))
	c.Logf("format=%s\nschema=%s\ninput=%s", w.format, w.schema, core.Trunc(string(w.input), 1500))
	s, err := omni.NewSchema(w.schema)
	if err != nil {
		c.Inc("schema_rejected")
		c.Logf("schema rejected: %v\n%s", err, w.schema)
		if c.Idx%50 == 0 {
			c.Sample(map[string]interface{}{"schema_rejected": err.Error()})
		}
		return
	}
	c.Inc("schemas")
	c.Inc("schemas:" + w.format)
	for k, v := range w.stats {
		c.Count("construct:"+k, int64(v))
	}
	if w.stats["duplicated_declarations"] > 0 {
		c.Inc("schemas_with_duplicated_declarations")
	}
	if w.stats["fn:javascript"]+w.stats["fn:javascript_with_context"] > 0 {
		c.Inc("schemas_with_js")
	}
	if strings.Contains(string(w.schema), `".."`) || strings.Contains(string(w.schema), `"../`) || strings.Contains(string(w.schema), "ancestor::") {
		c.Inc("schemas_with_ancestor_paths")
	}
	if r.Chance(1, 2) {
		// the all-caches-on run starts with pools and caches that somebody else's (XML, JSON) records have just been through
		omni.RunForeign()
		c.Inc("baseline_runs_after_foreign_transforms")
	}
	idBefore := idr.VerifNodeIDCounter()
	k0, k5 := c13Run(c, s, w, nil, true)
	c.Count("node_ids_consumed", idr.VerifNodeIDCounter()-idBefore)
	nrec := 0
	for _, st := range k0 {
		if st.Class == omni.OK {
			nrec++
		}
	}
	c.Count("records", int64(nrec))
	if nrec >= 2 {
		c.Distinct(string(w.schema), string(w.input))
		c.Inc("pool_reuse_observed") // a second record can only be built from recycled or fresh nodes; IDs consumed are reported above
	}
	base := map[string]interface{}{"format": w.format, "schema": string(w.schema), "input": core.Trunc(string(w.input), 4000)}
	with := func(extra map[string]interface{}) map[string]interface{} {
		d := map[string]interface{}{}
		for k, v := range base {
			d[k] = v
		}
		for k, v := range extra {
			d[k] = v
		}
		return d
	}
	for _, v := range k5 {
		kind := "cache-off-differs"
		if !v["result_cache_disabled"].(bool) {
			kind = "control-cache-on-differs"
		}
		if st, ok := v["read"].(omni.Step); ok && kind == "cache-off-differs" && strings.Contains(st.Bytes, "touched_by_script") && !strings.Contains(fmt.Sprint(v["reparse_bytes"]), "touched_by_script") {
			// the recognisable shape of one recorded defect (known_findings.json): a cached map shared by two identical declarations,
			// one of which hands it to a script that writes into it; every other K5 difference keeps the general signature
			kind = "cached-value-shared-with-a-script-that-writes-into-it"
		}
		c.Violate("C13:K5-result-cache:"+kind, "re-evaluating the same live record with the per-record result cache "+map[bool]string{true: "disabled", false: "enabled"}[v["result_cache_disabled"].(bool)]+" gives a different result than Read",
			with(v))
		break
	}
	for _, cfg := range c13Configs() {
		restore := cfg.apply()
		var t omni.Transcript
		pi := core.Guard(func() { t, _ = c13Run(c, s, w, cfg.perRead, false) })
		restore()
		c.Inc("config_runs")
		c.Inc("evaluations")
		c.Inc("config:" + cfg.name)
		if pi != nil {
			panic(fmt.Sprintf("%s\n%s", pi.Value, pi.Stack))
		}
		if t.String() != k0.String() {
			i := firstDiff(t, k0)
			c.Violate("C13:"+cfg.name+":"+c09DiffClass(t, k0, i)+":"+c13Cause(k0, t, i), "results under cache configuration "+cfg.name+" differ from results with all caches enabled",
				with(map[string]interface{}{"config": cfg.name, "first_difference_at_step": i, "all_caches_on": stepAt(k0, i), "this_config": stepAt(t, i)}))
		}
	}
	if c.Idx < 10 {
		c.Sample(map[string]interface{}{"format": w.format, "constructs": w.stats, "records": nrec, "schema": core.Trunc(string(w.schema), 600)})
	}
}

// c13Cause names which part of the output differs (top-level key of FINAL_OUTPUT), to keep distinct root causes apart.
func c13Cause(a, b omni.Transcript, i int) string {
	if i >= len(a) || i >= len(b) {
		return "length"
	}
	var ma, mb map[string]interface{}
	if json.Unmarshal([]byte(a[i].Bytes), &ma) != nil || json.Unmarshal([]byte(b[i].Bytes), &mb) != nil {
		return "non-object"
	}
	for k, va := range ma {
		ja, _ := json.Marshal(va)
		jb, _ := json.Marshal(mb[k])
		if string(ja) != string(jb) {
			switch {
			case strings.Contains(string(ja), "jsn:") || strings.Contains(string(jb), "jsn:"):
				return "javascript_with_context"
			case strings.Contains(string(ja), "js:") || strings.Contains(string(jb), "js:"):
				return "javascript"
			}
			return "other"
		}
	}
	return "missing-key"
}
