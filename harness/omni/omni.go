// Package omni is the client-boundary layer of the harness: it drives the real omniparser API and records
// transcripts of Read/RawRecord results.
package omni

import (
	"bytes"
	"errors"
	"fmt"
	"io"
	"reflect"
	"runtime"
	"strconv"
	"strings"
	"sync"

	"github.com/jf-tech/omniparser"
	"github.com/jf-tech/omniparser/customfuncs"
	"github.com/jf-tech/omniparser/errs"
	v21 "github.com/jf-tech/omniparser/extensions/omniv21"
	v21cf "github.com/jf-tech/omniparser/extensions/omniv21/customfuncs"
	"github.com/jf-tech/omniparser/idr"
	"github.com/jf-tech/omniparser/transformctx"
)

// Result classes of a Read call, derived from public predicates only.
const (
	OK    = "OK"
	FAIL  = "FAIL"  // errs.ErrTransformFailed: per-record failure, reading may continue
	EOF   = "EOF"   // io.EOF
	FATAL = "FATAL" // anything else
)

// Classify maps Read's error to a result class.
func Classify(err error) string {
	switch {
	case err == nil:
		return OK
	case err == io.EOF:
		return EOF
	case errs.IsErrTransformFailed(err):
		return FAIL
	default:
		return FATAL
	}
}

// Step is one observed call at the client boundary.
type Step struct {
	Op       string `json:"op"`
	Class    string `json:"class"`
	Bytes    string `json:"bytes,omitempty"`
	ErrType  string `json:"err_type,omitempty"`
	ErrMsg   string `json:"err,omitempty"`
	Checksum string `json:"checksum,omitempty"`
	Raw      string `json:"raw,omitempty"`
}

// Transcript is the ordered call history of one Transform.
type Transcript []Step

// String renders a transcript compactly (used for equality and digests).
func (t Transcript) String() string {
	var sb strings.Builder
	for i, s := range t {
		fmt.Fprintf(&sb, "%d %s %s b=%q et=%s e=%q cs=%s raw=%s\n", i, s.Op, s.Class, s.Bytes, s.ErrType, s.ErrMsg, s.Checksum, s.Raw)
	}
	return sb.String()
}

// Classes returns the sequence of Read classes as a short string, e.g. "OK OK FAIL EOF".
func (t Transcript) Classes() string {
	var cs []string
	for _, s := range t {
		if s.Op == "Read" || s.Op == "NewTransform" {
			cs = append(cs, s.Class)
		}
	}
	return strings.Join(cs, " ")
}

// Reads returns only the Read steps.
func (t Transcript) Reads() Transcript {
	var r Transcript
	for _, s := range t {
		if s.Op == "Read" {
			r = append(r, s)
		}
	}
	return r
}

// Short returns a size-limited copy for evidence samples / replay files.
func (t Transcript) Short(n int) []Step {
	var out []Step
	for i, s := range t {
		if i >= n {
			break
		}
		s.Bytes = trunc(s.Bytes, 300)
		s.ErrMsg = trunc(s.ErrMsg, 300)
		s.Raw = trunc(s.Raw, 300)
		out = append(out, s)
	}
	return out
}

func trunc(s string, n int) string {
	if len(s) <= n {
		return s
	}
	return s[:n] + "…"
}

// NodeString is a canonical rendering of an idr subtree: type, data, format-specific part, children in order.
func NodeString(n *idr.Node) string {
	var sb strings.Builder
	nodeString(&sb, n, 0)
	return sb.String()
}

func nodeString(sb *strings.Builder, n *idr.Node, depth int) {
	if n == nil {
		sb.WriteString("<nil>")
		return
	}
	if depth > 100000 {
		sb.WriteString("<deep>")
		return
	}
	if sb.Len() > 8<<20 {
		// a cyclic or runaway structure: the rendering stays finite (and differs from any sound tree's)
		if !strings.HasSuffix(sb.String()[sb.Len()-16:], "<RUNAWAY>") {
			sb.WriteString("<RUNAWAY>")
		}
		return
	}
	switch n.Type {
	case idr.DocumentNode:
		sb.WriteString("D")
	case idr.ElementNode:
		sb.WriteString("E")
	case idr.TextNode:
		sb.WriteString("T")
	case idr.AttributeNode:
		sb.WriteString("A")
	default:
		sb.WriteString("?" + strconv.Itoa(int(n.Type)))
	}
	sb.WriteString(strconv.Quote(n.Data))
	switch fs := n.FormatSpecific.(type) {
	case nil:
	case idr.JSONType:
		sb.WriteString("j" + strconv.Itoa(int(fs)))
	case idr.XMLSpecific:
		if fs.NamespacePrefix != "" || fs.NamespaceURI != "" {
			sb.WriteString("x" + strconv.Quote(fs.NamespacePrefix) + strconv.Quote(fs.NamespaceURI))
		}
	default:
		fmt.Fprintf(sb, "f%v", fs)
	}
	if n.FirstChild != nil {
		sb.WriteString("[")
		for c := n.FirstChild; c != nil && sb.Len() <= 8<<20; c = c.NextSibling {
			nodeString(sb, c, depth+1)
		}
		sb.WriteString("]")
	}
}

// ErrType names the dynamic Go type of an error.
func ErrType(err error) string {
	if err == nil {
		return ""
	}
	return reflect.TypeOf(err).String()
}

// ReadStep performs one Read (and, on success, one RawRecord) and returns the observed steps.
func ReadStep(tr omniparser.Transform, withRaw bool) Step {
	st, _ := ReadStepHolding(tr, withRaw)
	return st
}

// ReadStepHolding is ReadStep that also hands back the very slice Read returned (not a copy).
func ReadStepHolding(tr omniparser.Transform, withRaw bool) (Step, []byte) {
	s, b := readStep(tr, withRaw)
	return s, b
}

func readStep(tr omniparser.Transform, withRaw bool) (Step, []byte) {
	b, err := tr.Read()
	s := Step{Op: "Read", Class: Classify(err)}
	if b != nil {
		s.Bytes = string(b)
	}
	if err != nil {
		s.ErrType = ErrType(err)
		s.ErrMsg = err.Error()
		return s, b
	}
	if withRaw {
		rr, rerr := tr.RawRecord()
		if rerr != nil {
			s.Raw = "RawRecord error: " + rerr.Error()
		} else if rr != nil {
			s.Checksum = rr.Checksum()
			if n, ok := rr.Raw().(*idr.Node); ok {
				s.Raw = NodeString(n)
			} else {
				s.Raw = fmt.Sprintf("%T", rr.Raw())
			}
		}
	}
	return s, b
}

// RunOpts configures RunAll.
type RunOpts struct {
	MaxReads   int  // hard stop (reported as a step with Class "LIMIT")
	ExtraReads int  // Reads issued after the first terminal result
	NoRaw      bool // skip RawRecord
	Ext        map[string]string
	// Held, if set, makes RunAll keep the slices Read returned (uncopied) until the run has ended and report, here, the index of the
	// first Read step whose slice no longer holds the bytes it held when it was returned (-1: none)
	Held *int
	// OnRecord, if set, is called with the live record node after every successful Read, and with nil once the run has ended
	OnRecord func(n *idr.Node)
}

// RunAll creates a Transform and reads it to its terminal result.
func RunAll(s omniparser.Schema, input io.Reader, o RunOpts) Transcript {
	var t Transcript
	ctx := &transformctx.Ctx{ExternalProperties: o.Ext}
	tr, err := s.NewTransform("in", input, ctx)
	if err != nil {
		return Transcript{{Op: "NewTransform", Class: FATAL, ErrType: ErrType(err), ErrMsg: err.Error()}}
	}
	max := o.MaxReads
	if max <= 0 {
		max = 1 << 20
	}
	var held [][]byte
	for i := 0; i < max; i++ {
		st, b := ReadStepHolding(tr, !o.NoRaw)
		t = append(t, st)
		if o.Held != nil {
			held = append(held, b)
		}
		if o.OnRecord != nil {
			if st.Class == OK {
				if rr, rerr := tr.RawRecord(); rerr == nil && rr != nil {
					if n, ok := rr.Raw().(*idr.Node); ok {
						o.OnRecord(n)
					}
				}
			} else if st.Class == EOF || st.Class == FATAL {
				o.OnRecord(nil)
			}
		}
		if st.Class == EOF || st.Class == FATAL {
			for j := 0; j < o.ExtraReads; j++ {
				t = append(t, ReadStep(tr, !o.NoRaw))
			}
			if o.Held != nil {
				*o.Held = -1
				for k, b := range held {
					if string(b) != t[k].Bytes {
						*o.Held = k
						break
					}
				}
			}
			return t
		}
	}
	t = append(t, Step{Op: "Read", Class: "LIMIT"})
	return t
}

// ---- harness custom functions (registered through Extension.CustomFuncs, as the API allows) ----

// FailMarker makes vf_fail fail.
const FailMarker = "FAIL!"

func vfS(_ *transformctx.Ctx, ss ...string) (string, error) {
	return "S(" + strings.Join(quoteAll(ss), ",") + ")", nil
}
func vf2(_ *transformctx.Ctx, a, b string) (string, error) {
	return "2(" + strconv.Quote(a) + "," + strconv.Quote(b) + ")", nil
}
func vfI(_ *transformctx.Ctx, n int64, s string) (string, error) {
	return "I(" + strconv.FormatInt(n, 10) + "," + strconv.Quote(s) + ")", nil
}
func vfF(_ *transformctx.Ctx, x float64) (string, error) {
	return "F(" + strconv.FormatFloat(x, 'g', -1, 64) + ")", nil
}
func vfB(_ *transformctx.Ctx, b bool) (string, error) {
	return "B(" + strconv.FormatBool(b) + ")", nil
}
func vfN(_ *transformctx.Ctx, n *idr.Node, s string) (string, error) {
	return "N(" + strconv.Quote(n.Data) + "," + strconv.Quote(n.InnerText()) + "," + strconv.Quote(s) + ")", nil
}
func vfFail(_ *transformctx.Ctx, s string) (string, error) {
	if strings.Contains(s, FailMarker) {
		return "", errors.New("vf_fail refused " + strconv.Quote(s))
	}
	return "ok:" + s, nil
}
func vfInt(_ *transformctx.Ctx, s string) (int64, error) {
	return int64(len(s)), nil
}
func vfFloat(_ *transformctx.Ctx, s string) (float64, error) {
	return float64(len(s)) + 0.5, nil
}
func vfBool(_ *transformctx.Ctx, s string) (bool, error) {
	return len(s)%2 == 0, nil
}
func vfYield(_ *transformctx.Ctx, s string) (string, error) {
	runtime.Gosched()
	return s, nil
}

func quoteAll(ss []string) []string {
	out := make([]string, len(ss))
	for i, s := range ss {
		out[i] = strconv.Quote(s)
	}
	return out
}

// HarnessFuncs are the caller-registered functions of the harness; each returns a canonical rendering of
// exactly the arguments it received.
var HarnessFuncs = customfuncs.CustomFuncs{
	"vf_s": vfS, "vf_2": vf2, "vf_i": vfI, "vf_f": vfF, "vf_b": vfB, "vf_n": vfN, "vf_fail": vfFail,
	"vf_int": vfInt, "vf_float": vfFloat, "vf_bool": vfBool, "vf_yield": vfYield,
}

// Ext is the extension the harness passes to NewSchema: the built-in omni.2.1 handler with the built-in
// functions plus the harness functions.
var Ext = omniparser.Extension{
	CreateSchemaHandler: v21.CreateSchemaHandler,
	CustomFuncs:         customfuncs.Merge(customfuncs.CommonCustomFuncs, v21cf.OmniV21CustomFuncs, HarnessFuncs),
}

// ExtAlt binds some of the harness function names to OTHER functions (the rendering carries an ALT_ prefix): custom function tables
// belong to an Extension, so a schema created with this one must get these, whatever other schemas in the process are bound to.
var ExtAlt = omniparser.Extension{
	CreateSchemaHandler: v21.CreateSchemaHandler,
	CustomFuncs: customfuncs.Merge(customfuncs.CommonCustomFuncs, v21cf.OmniV21CustomFuncs, HarnessFuncs, customfuncs.CustomFuncs{
		"vf_s": func(_ *transformctx.Ctx, ss ...string) (string, error) {
			return "ALT_S(" + strings.Join(quoteAll(ss), ",") + ")", nil
		},
		"vf_2": func(_ *transformctx.Ctx, a, b string) (string, error) {
			return "ALT_2(" + strconv.Quote(a) + "," + strconv.Quote(b) + ")", nil
		},
		"vf_i": func(_ *transformctx.Ctx, n int64, s string) (string, error) {
			return "ALT_I(" + strconv.FormatInt(n, 10) + "," + strconv.Quote(s) + ")", nil
		},
	}),
}

// NewSchemaAlt parses a schema with ExtAlt.
func NewSchemaAlt(content []byte) (omniparser.Schema, error) {
	return omniparser.NewSchema("schema", strings.NewReader(string(content)), ExtAlt)
}

// NewSchema parses a schema with the harness extension.
func NewSchema(content []byte) (omniparser.Schema, error) {
	return omniparser.NewSchema("schema", strings.NewReader(string(content)), Ext)
}

// ---- a transform over unrelated data, run in between the observed ones ----

var (
	foreignOnce              sync.Once
	foreignXML, foreignJSON  omniparser.Schema
	foreignXMLIn, foreignJIn []byte
)

// RunForeign runs two small unrelated transforms (a namespaced XML document and a JSON document with every value type, both using
// javascript) to their end in this process. Whatever process-wide state the library keeps (node pool, expression and program
// caches, javascript runtimes) has then been used by somebody else before the next observed transform starts.
func RunForeign() {
	foreignOnce.Do(func() {
		foreignXML, _ = NewSchema([]byte(`{"parser_settings":{"version":"omni.2.1","file_format_type":"xml"},"transform_declarations":{"FINAL_OUTPUT":{"xpath":"/inv:doc/inv:item","object":{
			"id":{"xpath":"inv:id"},"js":{"custom_func":{"name":"javascript_with_context","args":[{"const":"JSON.stringify(_node)"}]}},"all":{"array":[{"xpath":"*","object":{"t":{"xpath":"."}}}]}}}}}`))
		foreignJSON, _ = NewSchema([]byte(`{"parser_settings":{"version":"omni.2.1","file_format_type":"json"},"transform_declarations":{"FINAL_OUTPUT":{"xpath":"/*","object":{
			"id":{"xpath":"id"},"cp":{"custom_func":{"name":"copy","args":[{"xpath":"."}]}},"js":{"custom_func":{"name":"javascript","args":[{"const":"n * 2 + s.length"},{"const":"n"},{"xpath":"num","type":"float"},{"const":"s"},{"xpath":"str"}]}}}}}}`))
		var x, j strings.Builder
		x.WriteString(`<inv:doc xmlns:inv="urn:inv" xmlns:o="urn:o">`)
		j.WriteString("[")
		for i := 0; i < 12; i++ {
			fmt.Fprintf(&x, `<inv:item o:k="%d"><inv:id>x%d</inv:id><o:n>%d</o:n><inv:f1>t</inv:f1><inv:f2/><o:f3>u<inv:deep>v</inv:deep></o:f3></inv:item>`, i, i, i)
			if i > 0 {
				j.WriteString(",")
			}
			fmt.Fprintf(&j, `{"id":"j%d","num":%d.5,"str":"s","b":true,"nul":null,"arr":[1,"a",[2],{"k":false}],"obj":{"n":1,"f1":2,"f2":[3]}}`, i, i)
		}
		x.WriteString(`</inv:doc>`)
		j.WriteString("]")
		foreignXMLIn, foreignJIn = []byte(x.String()), []byte(j.String())
	})
	if foreignXML != nil {
		RunAll(foreignXML, bytes.NewReader(foreignXMLIn), RunOpts{MaxReads: 100})
	}
	if foreignJSON != nil {
		RunAll(foreignJSON, bytes.NewReader(foreignJIn), RunOpts{MaxReads: 100})
	}
}
