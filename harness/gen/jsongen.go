// Package gen holds the deterministic generators and independent encoders of the harness.
package gen

import (
	"fmt"
	"math"
	"strconv"
	"strings"
	"unicode/utf8"

	"verif/harness/core"
)

// JKind enumerates JSON value kinds of the logical model.
type JKind int

const (
	JNull JKind = iota
	JBool
	JNum
	JStr
	JArr
	JObj
)

// JV is a logical JSON value. Objects keep key order (so the serialiser is deterministic) and never contain duplicate keys.
type JV struct {
	Kind JKind
	B    bool
	Num  string // literal spelling as it appears in the document
	S    string
	Arr  []*JV
	Keys []string
	Vals []*JV
}

// JSONOpts steers GenJSON.
type JSONOpts struct {
	MaxDepth    int
	MaxFan      int
	EmptyKeys   bool // allow "" as an object key
	NastyStr    bool
	KeyAlphabet []string // if set, keys come from here (so names repeat at several depths)
	IDs         *int     // if set, every object gets a unique "id" property first
}

var nastyRunes = []rune{'"', '\\', '/', '\b', '\f', '\n', '\r', '\t', ' ', 0x01, 0x1f, 0x7f, 'é', 'ß', '€', '中', '😀', 0x2028, 0xfeff, '<', '>', '&', '\'', '{', '}', '[', ']', ',', ':'}

// RandString generates a short string biased towards characters that need escaping.
func RandString(r *core.Rand, maxLen int, nasty bool) string {
	n := r.Intn(maxLen + 1)
	var sb strings.Builder
	for i := 0; i < n; i++ {
		if nasty && r.Chance(1, 3) {
			sb.WriteRune(nastyRunes[r.Intn(len(nastyRunes))])
		} else {
			sb.WriteByte("abcxyzABC0129 _-."[r.Intn(17)])
		}
	}
	return sb.String()
}

var numSpellings = []string{"0", "-0", "1", "-1", "1.0", "1e0", "1E+2", "1.5e-3", "0.1", "0.30000000000000004", "123456789012", "9007199254740993",
	"1e21", "1e-7", "123456789.123456789", "-2.5", "3.141592653589793", "1e308", "5e-324", "0.000001", "100", "1.7976931348623157e308", "2.2250738585072014e-308"}

func randNum(r *core.Rand) string {
	switch r.Intn(4) {
	case 0:
		return numSpellings[r.Intn(len(numSpellings))]
	case 1:
		return strconv.Itoa(r.Range(-1000, 1000))
	case 2:
		return strconv.FormatFloat((r.Float64()-0.5)*math.Pow(10, float64(r.Range(-8, 12))), 'g', -1, 64)
	default:
		return strconv.FormatInt(int64(r.Uint64()>>uint(r.Range(1, 62))), 10)
	}
}

// GenJSON generates a logical JSON value.
func GenJSON(r *core.Rand, o JSONOpts, depth int) *JV {
	k := r.Intn(10)
	if depth >= o.MaxDepth && k >= 6 {
		k = r.Intn(6)
	}
	switch {
	case k == 0:
		return &JV{Kind: JNull}
	case k == 1:
		return &JV{Kind: JBool, B: r.Bool()}
	case k <= 3:
		return &JV{Kind: JNum, Num: randNum(r)}
	case k <= 5:
		return &JV{Kind: JStr, S: RandString(r, 8, o.NastyStr)}
	case k <= 7:
		n := r.Intn(o.MaxFan + 1)
		v := &JV{Kind: JArr}
		for i := 0; i < n; i++ {
			v.Arr = append(v.Arr, GenJSON(r, o, depth+1))
		}
		return v
	default:
		return genObj(r, o, depth)
	}
}

func genObj(r *core.Rand, o JSONOpts, depth int) *JV {
	n := r.Intn(o.MaxFan + 1)
	v := &JV{Kind: JObj}
	seen := map[string]bool{}
	if o.IDs != nil {
		*o.IDs++
		v.Keys = append(v.Keys, "id")
		v.Vals = append(v.Vals, &JV{Kind: JStr, S: "o" + strconv.Itoa(*o.IDs)})
		seen["id"] = true
	}
	for i := 0; i < n; i++ {
		var key string
		switch {
		case len(o.KeyAlphabet) > 0:
			key = o.KeyAlphabet[r.Intn(len(o.KeyAlphabet))]
		case o.EmptyKeys && r.Chance(1, 8):
			key = ""
		case r.Chance(1, 4):
			key = RandString(r, 5, o.NastyStr)
		default:
			key = []string{"a", "b", "c", "ab", "abc", "k", "x", "y", "#attributes", "id2"}[r.Intn(10)]
		}
		if seen[key] {
			continue
		}
		seen[key] = true
		v.Keys = append(v.Keys, key)
		v.Vals = append(v.Vals, GenJSON(r, o, depth+1))
	}
	return v
}

// GenJSONObj generates a value that is an object.
func GenJSONObj(r *core.Rand, o JSONOpts, depth int) *JV { return genObj(r, o, depth) }

func ws(r *core.Rand, sb *strings.Builder, fancy bool) {
	if !fancy {
		return
	}
	for r.Chance(1, 4) {
		sb.WriteString([]string{" ", "\n", "\t", "\r\n", "  "}[r.Intn(5)])
	}
}

// EncodeJSONString is the harness's own JSON string encoder; with fancy it uses random-but-equivalent escapes.
func EncodeJSONString(r *core.Rand, s string, fancy bool) string {
	var sb strings.Builder
	sb.WriteByte('"')
	for _, c := range s {
		switch {
		case c == '"':
			sb.WriteString(`\"`)
		case c == '\\':
			sb.WriteString(`\\`)
		case c == '\n':
			if fancy && r.Bool() {
				sb.WriteString(`\u000a`)
			} else {
				sb.WriteString(`\n`)
			}
		case c == '\r':
			sb.WriteString(`\r`)
		case c == '\t':
			sb.WriteString(`\t`)
		case c == '\b':
			sb.WriteString(`\b`)
		case c == '\f':
			sb.WriteString(`\f`)
		case c < 0x20 || c == 0x7f:
			fmt.Fprintf(&sb, `\u%04x`, c)
		case c == '/' && fancy && r.Bool():
			sb.WriteString(`\/`)
		case c == utf8.RuneError:
			sb.WriteString(`�`)
		case fancy && r.Chance(1, 5):
			if c > 0xffff {
				c2 := c - 0x10000
				fmt.Fprintf(&sb, `\u%04x\u%04x`, 0xd800+(c2>>10), 0xdc00+(c2&0x3ff))
			} else {
				fmt.Fprintf(&sb, `\u%04X`, c)
			}
		default:
			sb.WriteRune(c)
		}
	}
	sb.WriteByte('"')
	return sb.String()
}

// EncodeJSON serialises a logical value with the harness's own writer (random whitespace and escapes when fancy).
func EncodeJSON(r *core.Rand, v *JV, fancy bool) string {
	var sb strings.Builder
	encodeJSON(r, &sb, v, fancy)
	return sb.String()
}

func encodeJSON(r *core.Rand, sb *strings.Builder, v *JV, fancy bool) {
	ws(r, sb, fancy)
	switch v.Kind {
	case JNull:
		sb.WriteString("null")
	case JBool:
		sb.WriteString(strconv.FormatBool(v.B))
	case JNum:
		sb.WriteString(v.Num)
	case JStr:
		sb.WriteString(EncodeJSONString(r, v.S, fancy))
	case JArr:
		sb.WriteByte('[')
		for i, e := range v.Arr {
			if i > 0 {
				sb.WriteByte(',')
			}
			encodeJSON(r, sb, e, fancy)
		}
		ws(r, sb, fancy)
		sb.WriteByte(']')
	case JObj:
		sb.WriteByte('{')
		for i, k := range v.Keys {
			if i > 0 {
				sb.WriteByte(',')
			}
			ws(r, sb, fancy)
			sb.WriteString(EncodeJSONString(r, k, fancy))
			ws(r, sb, fancy)
			sb.WriteByte(':')
			encodeJSON(r, sb, v.Vals[i], fancy)
		}
		ws(r, sb, fancy)
		sb.WriteByte('}')
	}
	ws(r, sb, fancy)
}

// Count returns the number of values in the tree.
func (v *JV) Count() int {
	n := 1
	for _, e := range v.Arr {
		n += e.Count()
	}
	for _, e := range v.Vals {
		n += e.Count()
	}
	return n
}

// Features reports structural features (for observed-coverage counters).
func (v *JV) Features(f map[string]bool) {
	switch v.Kind {
	case JArr:
		if len(v.Arr) == 0 {
			f["empty_array"] = true
		}
		if len(v.Arr) == 1 {
			f["single_element_array"] = true
		}
		for _, e := range v.Arr {
			if e.Kind == JArr {
				f["array_in_array"] = true
			}
			e.Features(f)
		}
	case JObj:
		if len(v.Keys) == 0 {
			f["empty_object"] = true
		}
		for i, k := range v.Keys {
			if k == "" {
				f["empty_key"] = true
			}
			if len(v.Keys) == 1 {
				f["single_key_object"] = true
			}
			v.Vals[i].Features(f)
		}
	case JStr:
		if v.S == "" {
			f["empty_string"] = true
		}
		for _, c := range v.S {
			if c > 0xffff {
				f["astral_rune"] = true
			} else if c > 0x7f {
				f["non_ascii"] = true
			} else if c < 0x20 {
				f["control_char"] = true
			}
		}
	case JNull:
		f["null"] = true
	case JNum:
		if strings.ContainsAny(v.Num, "eE") {
			f["exponent_number"] = true
		}
	}
}
