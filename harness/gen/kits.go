package gen

import (
	"encoding/json"
	"fmt"
	"strconv"
	"strings"

	"verif/harness/core"
)

// Formats lists the seven built-in file formats.
var Formats = []string{"csv", "csv2", "fixed-length", "fixedlength2", "edi", "json", "xml"}

// Rec is a logical record: a unique id, a numeric-looking field n (a non-numeric value makes the record fail under the
// "failing" schema mode), and NF free-text fields.
type Rec struct {
	ID    string
	Num   string
	F     []string
	Short int  // csv/csv2 single-line records: number of trailing cells left out of the row
	Dup   bool // xml: the n element is rendered twice (an object field with two matches fails the record)
}

// Kit bundles, for one file format, a schema family and an independent encoder from logical records to input bytes.
type Kit struct {
	Format string
	NF     int
	// format-specific choices, fixed at creation
	Delim      string // csv/csv2
	Header     bool   // csv: header row declared and verified
	Widths     []int  // fixed-length column widths (id, n, f...)
	Rows       int    // csv2 / fixed-length / fixedlength2: lines per record (1 = single-line records)
	HF         bool   // multi-line records delimited by header/footer patterns instead of a fixed row count
	UsePattern bool   // multi-line: columns pick their line by line_pattern instead of line_index
	SegDelim   string // edi
	ElemDelim  string
	Release    string
	IgnoreCRLF bool
	ReplaceDQ  bool   // csv/csv2: replace_double_quotes
	TopArray   bool   // json: top-level array instead of {"recs":[...]}
	Encoding   string // "" = utf-8 default
	Filter     string // ModeFilter: the predicate on the target ("" = n!='0')
	NoTrailer  bool   // edi: the (optional) TRL segment is absent, the input ends inside the repeating REC loop
	Gap        int    // csv: lines between the header row (or the start) and the first data row that the reader has to skip
}

// NewKit draws a kit for the format.
func NewKit(r *core.Rand, format string) *Kit {
	k := &Kit{Format: format, NF: r.Range(1, 4)}
	switch format {
	case "csv", "csv2":
		k.Delim = r.Pick(",", ",", "|", "\t", ";", "§")
		k.Header = r.Bool()
		if format == "csv" {
			k.Gap = r.Pick2(0, 0, 0, 1, 2, 3)
		}
		k.ReplaceDQ = r.Chance(1, 5)
		k.Rows = 1
		if format == "csv2" && r.Chance(1, 2) {
			k.Rows = r.Range(2, 3)
			k.HF = r.Bool()
			k.UsePattern = r.Bool()
		}
	case "fixed-length", "fixedlength2":
		k.Widths = []int{6, 5}
		for i := 0; i < k.NF; i++ {
			k.Widths = append(k.Widths, r.Range(3, 9))
		}
		k.Rows = 1
		if r.Chance(1, 2) {
			k.Rows = r.Range(2, 3)
			k.HF = r.Bool()
			k.UsePattern = r.Bool()
		}
	case "edi":
		k.SegDelim = r.Pick("~", "~", "\n", "|")
		k.ElemDelim = "*"
		if r.Bool() {
			k.Release = "?"
		}
		k.IgnoreCRLF = k.SegDelim != "\n" && r.Bool()
		k.NoTrailer = r.Chance(1, 3)
	case "json":
		k.TopArray = r.Chance(1, 3)
	}
	return k
}

var kitRunes = []rune("abcdefghijklmnopqrstuvwxyzABCXYZ0123456789 .-_/éß中€😀")

// GenVal generates a field value acceptable to the kit's format (specials that the format cannot carry are avoided;
// the dedicated C06/C07 generators exercise those).
func (k *Kit) GenVal(r *core.Rand, maxLen int) string {
	n := r.Range(0, maxLen)
	var sb strings.Builder
	for i := 0; i < n; i++ {
		c := kitRunes[r.Intn(len(kitRunes))]
		if r.Chance(1, 10) {
			switch k.Format {
			case "csv", "csv2":
				c = []rune{',', '"', '|', ';', '\n', '\t', '\''}[r.Intn(7)]
			case "edi":
				if k.Release != "" {
					c = []rune{'*', '~', '?', '|', ':'}[r.Intn(5)]
				}
			case "json", "xml":
				c = []rune{'<', '>', '&', '"', '\\', '\'', '{', '\n'}[r.Intn(8)]
			}
		}
		sb.WriteRune(c)
	}
	s := sb.String()
	switch k.Format {
	case "fixed-length", "fixedlength2":
		// values must fit any column (min width 3) and carry no line breaks; blanks are padding
		s = strings.Map(func(c rune) rune {
			if c == '\n' || c == '\r' {
				return '_'
			}
			return c
		}, s)
	case "edi":
		if k.Release == "" {
			s = strings.Map(func(c rune) rune {
				if strings.ContainsRune(k.SegDelim+k.ElemDelim+"\r\n", c) {
					return '_'
				}
				return c
			}, s)
		} else {
			s = strings.Map(func(c rune) rune {
				if c == '\r' || c == '\n' {
					return '_'
				}
				return c
			}, s)
		}
	}
	return s
}

// Widen makes the last free-text column of a fixed-length kit n runes wide (records then straddle reader buffers).
func (k *Kit) Widen(n int) {
	if k.Widths != nil {
		k.Widths[len(k.Widths)-1] = n
	}
}

// GenRec generates record number i (ids are unique within an input).
func (k *Kit) GenRec(r *core.Rand, i int) Rec {
	rec := Rec{ID: "r" + strconv.Itoa(i), Num: strconv.Itoa(r.Range(0, 999))}
	for j := 0; j < k.NF; j++ {
		max := 8
		if k.Widths != nil {
			max = k.Widths[2+j]
		}
		rec.F = append(rec.F, k.GenVal(r, max))
	}
	return rec
}

func (k *Kit) colNames() []string {
	cols := []string{"id", "n"}
	for i := 0; i < k.NF; i++ {
		cols = append(cols, "f"+strconv.Itoa(i+1))
	}
	return cols
}

// Target xpath of a record in the pass-through schemas ("" for flat formats).
func (k *Kit) targetXPath() string {
	switch k.Format {
	case "json":
		if k.TopArray {
			return "/*"
		}
		return "/recs/*"
	case "xml":
		return "/root/rec"
	}
	return ""
}

// Schema modes.
const (
	ModePass    = "pass"    // every column exposed as a raw string
	ModeFailing = "failing" // n is cast to int: records whose n is not numeric fail
	ModeFilter  = "filter"  // target filter: records with n='0' are not targets
	ModeCopy    = "copy"    // FINAL_OUTPUT is the copy custom_func
	ModeRich    = "rich"    // pass-through plus templates, arrays, custom funcs and javascript on the record
	ModeFailFn  = "failfn"  // like failing, plus vf_fail(f1): records whose f1 contains the fail marker fail in a custom function
	ModeFloat   = "float"   // n is cast to float: "NaN" / "Inf" parse as floats that JSON cannot carry (the record must fail, not vanish)
)

// Schema returns the schema JSON for a mode.
func (k *Kit) Schema(mode string) []byte {
	ps := map[string]interface{}{"version": "omni.2.1", "file_format_type": k.Format}
	if k.Encoding != "" {
		ps["encoding"] = k.Encoding
	}
	doc := map[string]interface{}{"parser_settings": ps}
	if fd := k.fileDecl(); fd != nil {
		doc["file_declaration"] = fd
	}
	cols := k.colNames()
	xp := k.targetXPath()
	if mode == ModeFilter {
		f := k.Filter
		if f == "" {
			f = "n!='0'"
		}
		if xp == "" {
			xp = ".[" + f + "]"
		} else {
			xp += "[" + f + "]"
		}
	}
	td := map[string]interface{}{}
	var final map[string]interface{}
	switch mode {
	case ModeCopy:
		final = map[string]interface{}{"custom_func": map[string]interface{}{"name": "copy"}, "keep_empty_or_null": true}
	default:
		obj := map[string]interface{}{}
		for _, cname := range cols {
			f := map[string]interface{}{"xpath": cname, "no_trim": true, "keep_empty_or_null": true}
			if cname == "n" && (mode == ModeFailing || mode == ModeFailFn) {
				f = map[string]interface{}{"xpath": cname, "type": "int"}
			}
			if cname == "n" && mode == ModeFloat {
				f = map[string]interface{}{"xpath": cname, "type": "float"}
			}
			if cname == "f1" && mode == ModeFailFn {
				f = map[string]interface{}{"custom_func": map[string]interface{}{"name": "vf_fail", "args": []interface{}{map[string]interface{}{"xpath": "f1"}}}}
			}
			obj[cname] = f
		}
		if mode == ModeRich {
			td["pair"] = map[string]interface{}{"object": map[string]interface{}{
				"k": map[string]interface{}{"xpath": "id"},
				"v": map[string]interface{}{"custom_func": map[string]interface{}{"name": "upper", "args": []interface{}{map[string]interface{}{"xpath": "f1"}}}},
			}}
			obj["t1"] = map[string]interface{}{"template": "pair"}
			obj["arr"] = map[string]interface{}{"array": []interface{}{
				map[string]interface{}{"xpath": "f1"},
				map[string]interface{}{"template": "pair"},
				map[string]interface{}{"custom_func": map[string]interface{}{"name": "concat", "args": []interface{}{
					map[string]interface{}{"xpath": "id"}, map[string]interface{}{"const": "-"}, map[string]interface{}{"xpath": "n"}}}},
			}}
			obj["js"] = map[string]interface{}{"custom_func": map[string]interface{}{"name": "javascript", "args": []interface{}{
				map[string]interface{}{"const": "a + '/' + b.length"},
				map[string]interface{}{"const": "a"}, map[string]interface{}{"xpath": "id"},
				map[string]interface{}{"const": "b"}, map[string]interface{}{"xpath": "f1", "no_trim": true, "keep_empty_or_null": true}}}}
			obj["jsn"] = map[string]interface{}{"custom_func": map[string]interface{}{"name": "javascript_with_context", "args": []interface{}{
				map[string]interface{}{"const": "JSON.parse(_node).id + ':' + JSON.parse(_node).n"}}}}
			obj["dyn"] = map[string]interface{}{"xpath_dynamic": map[string]interface{}{"const": "n"}}
			obj["uuid"] = map[string]interface{}{"custom_func": map[string]interface{}{"name": "uuidv3", "args": []interface{}{map[string]interface{}{"xpath": "id"}}}}
			// a function of constants only, gated by its own xpath: present for some records, absent for others
			obj["promo"] = map[string]interface{}{"xpath": "n[.!='0']", "custom_func": map[string]interface{}{"name": "concat", "args": []interface{}{
				map[string]interface{}{"const": "promo-"}, map[string]interface{}{"const": "x", "no_trim": true}}}}
			obj["promo2"] = map[string]interface{}{"xpath": "f1[.!='']", "custom_func": map[string]interface{}{"name": "upper", "args": []interface{}{map[string]interface{}{"const": "static"}}}}
		}
		final = map[string]interface{}{"object": obj}
	}
	if xp != "" {
		final["xpath"] = xp
	}
	td["FINAL_OUTPUT"] = final
	doc["transform_declarations"] = td
	b, _ := json.MarshalIndent(doc, "", " ")
	return b
}

// lineSpec describes one physical line of a (possibly multi-line) flat-file record.
type lineSpec struct {
	tag    string
	fields []int // indices into the row (id, n, f1..)
}

// lines returns the physical layout of one record.
func (k *Kit) lines() []lineSpec {
	ncol := 2 + k.NF
	if k.Rows <= 1 {
		ls := lineSpec{}
		for j := 0; j < ncol; j++ {
			ls.fields = append(ls.fields, j)
		}
		return []lineSpec{ls}
	}
	out := make([]lineSpec, k.Rows)
	for i := range out {
		switch {
		case !k.HF:
			out[i].tag = "L" + strconv.Itoa(i)
		case i == 0:
			out[i].tag = "H:"
		case i == k.Rows-1:
			out[i].tag = "T:"
		default:
			out[i].tag = "M" + strconv.Itoa(i)
		}
	}
	for j := 0; j < ncol; j++ {
		out[j%k.Rows].fields = append(out[j%k.Rows].fields, j)
	}
	return out
}

// lineSel adds the line selector of a column on physical line li to its declaration.
func (k *Kit) lineSel(col map[string]interface{}, li int, tag string, old bool) {
	if k.Rows <= 1 {
		return
	}
	if old || k.UsePattern {
		col["line_pattern"] = "^" + tag
	} else {
		col["line_index"] = li + 1
	}
}

func (k *Kit) fileDecl() map[string]interface{} {
	cols := k.colNames()
	switch k.Format {
	case "csv":
		var cs []interface{}
		for _, c := range cols {
			cs = append(cs, map[string]interface{}{"name": c})
		}
		fd := map[string]interface{}{"delimiter": k.Delim, "data_row_index": 1, "columns": cs}
		if k.ReplaceDQ {
			fd["replace_double_quotes"] = true
		}
		if k.Header {
			fd["header_row_index"] = 1
			fd["data_row_index"] = 2
		}
		if k.Gap > 0 {
			fd["data_row_index"] = fd["data_row_index"].(int) + k.Gap
		}
		return fd
	case "csv2":
		var cs []interface{}
		for li, ls := range k.lines() {
			for p, j := range ls.fields {
				col := map[string]interface{}{"name": cols[j], "index": p + 1}
				if ls.tag != "" {
					col["index"] = p + 2
				}
				k.lineSel(col, li, ls.tag, false)
				cs = append(cs, col)
			}
		}
		recs := []interface{}{}
		if k.Header {
			recs = append(recs, map[string]interface{}{"name": "hdr", "min": 1, "max": 1})
		}
		rec := map[string]interface{}{"name": "rec", "is_target": true, "columns": cs}
		if k.Rows > 1 {
			if k.HF {
				rec["header"], rec["footer"] = "^H:", "^T:"
			} else {
				rec["rows"] = k.Rows
			}
		}
		recs = append(recs, rec)
		fd := map[string]interface{}{"delimiter": k.Delim, "records": recs}
		if k.ReplaceDQ {
			fd["replace_double_quotes"] = true
		}
		return fd
	case "fixed-length":
		env := map[string]interface{}{"columns": k.flCols(true)}
		if k.Rows > 1 {
			if k.HF {
				env["by_header_footer"] = map[string]interface{}{"header": "^H:", "footer": "^T:"}
				env["name"] = "rec"
			} else {
				env["by_rows"] = k.Rows
			}
		}
		return map[string]interface{}{"envelopes": []interface{}{env}}
	case "fixedlength2":
		env := map[string]interface{}{"name": "rec", "is_target": true, "columns": k.flCols(false)}
		if k.Rows > 1 {
			if k.HF {
				env["header"], env["footer"] = "^H:", "^T:"
			} else {
				env["rows"] = k.Rows
			}
		}
		return map[string]interface{}{"envelopes": []interface{}{env}}
	case "edi":
		var elems []interface{}
		for i, c := range cols {
			elems = append(elems, map[string]interface{}{"name": c, "index": i + 1})
		}
		fd := map[string]interface{}{
			"segment_delimiter": k.SegDelim, "element_delimiter": k.ElemDelim,
			"segment_declarations": []interface{}{
				map[string]interface{}{"name": "HDR", "min": 0, "elements": []interface{}{map[string]interface{}{"name": "h", "index": 1}}},
				map[string]interface{}{"name": "REC", "is_target": true, "min": 0, "max": -1, "elements": elems},
				map[string]interface{}{"name": "TRL", "min": 0},
			}}
		if k.Release != "" {
			fd["release_character"] = k.Release
		}
		if k.IgnoreCRLF {
			fd["ignore_crlf"] = true
		}
		return fd
	}
	return nil
}

func (k *Kit) flCols(old bool) []interface{} {
	var cs []interface{}
	names := k.colNames()
	for li, ls := range k.lines() {
		pos := 1 + len(ls.tag)
		for _, j := range ls.fields {
			col := map[string]interface{}{"name": names[j], "start_pos": pos, "length": k.Widths[j]}
			k.lineSel(col, li, ls.tag, old)
			cs = append(cs, col)
			pos += k.Widths[j]
		}
	}
	return cs
}

// EncodeCSVField is the harness's own RFC-4180 field encoder.
func EncodeCSVField(r *core.Rand, s string, delim string) string {
	need := strings.Contains(s, delim) || strings.ContainsAny(s, "\"\r\n") || s == ""
	if len(s) > 0 && (s[0] == ' ' || s[len(s)-1] == ' ') {
		need = need || (r != nil && r.Bool())
	}
	if !need && r != nil && r.Chance(1, 6) {
		need = true
	}
	if s == "" && r != nil && r.Bool() {
		need = false
	}
	if !need {
		return s
	}
	return `"` + strings.ReplaceAll(s, `"`, `""`) + `"`
}

// EncodeCSVRow encodes one row (without terminator).
func EncodeCSVRow(r *core.Rand, cells []string, delim string) string {
	parts := make([]string, len(cells))
	for i, c := range cells {
		parts[i] = EncodeCSVField(r, c, delim)
	}
	return strings.Join(parts, delim)
}

// csvRow encodes a row for this kit. With replace_double_quotes every double quote becomes a single quote before parsing,
// so no RFC-4180 quoting is possible: cells are emitted raw, with the characters that would need quoting replaced.
func (k *Kit) csvRow(r *core.Rand, cells []string) string {
	if !k.ReplaceDQ {
		return EncodeCSVRow(r, cells, k.Delim)
	}
	out := make([]string, len(cells))
	for i, c := range cells {
		out[i] = strings.Map(func(x rune) rune {
			if x == '\n' || x == '\r' || strings.ContainsRune(k.Delim, x) {
				return '_'
			}
			return x
		}, c)
	}
	return strings.Join(out, k.Delim)
}

// PadRunes pads/truncates s to exactly w runes.
func PadRunes(s string, w int, fill rune) string {
	rs := []rune(s)
	if len(rs) > w {
		rs = rs[:w]
	}
	for len(rs) < w {
		rs = append(rs, fill)
	}
	return string(rs)
}

// EscapeEDI precedes every rune that occurs in any delimiter, and the release character itself, with the release character.
func EscapeEDI(s string, release string, delims ...string) string {
	if release == "" {
		return s
	}
	var sb strings.Builder
	for _, c := range s {
		special := strings.ContainsRune(release, c)
		for _, d := range delims {
			if d != "" && strings.ContainsRune(d, c) {
				special = true
			}
		}
		if special {
			sb.WriteString(release)
		}
		sb.WriteRune(c)
	}
	return sb.String()
}

// RenderOpts vary semantically-insignificant formatting.
type RenderOpts struct {
	NoFinalTerminator bool
	BlankLines        bool // blank lines / whitespace between records where the format ignores them
	CRLF              bool
	BOM               bool
}

// Render encodes the record list into input bytes: Head + records + Tail.
func (k *Kit) Render(r *core.Rand, recs []Rec, o RenderOpts) []byte {
	var sb []byte
	sb = append(sb, k.Head(r, o)...)
	for i, rec := range recs {
		sb = append(sb, k.OneRec(r, rec, o, i == 0, i == len(recs)-1)...)
	}
	sb = append(sb, k.Tail(r, o)...)
	return sb
}

func nlOf(o RenderOpts) string {
	if o.CRLF {
		return "\r\n"
	}
	return "\n"
}

// Head renders what precedes the first record.
func (k *Kit) Head(r *core.Rand, o RenderOpts) []byte {
	nl := nlOf(o)
	var sb strings.Builder
	if o.BOM {
		sb.WriteString("\xef\xbb\xbf")
	}
	switch k.Format {
	case "csv", "csv2":
		if k.Header {
			sb.WriteString(k.csvRow(r, k.colNames()) + nl)
		}
		for i := 0; i < k.Gap; i++ {
			sb.WriteString("skipped line " + strconv.Itoa(i) + k.Delim + "x" + nl)
		}
	case "edi":
		sb.WriteString("HDR" + k.ElemDelim + "h1" + k.SegDelim)
	case "json":
		if k.TopArray {
			sb.WriteString("[")
		} else {
			sb.WriteString(`{"hdr":{"k":"v"},"recs":[`)
		}
	case "xml":
		sb.WriteString(`<root><hdr k="v">h</hdr>`)
	}
	return []byte(sb.String())
}

// Tail renders what follows the last record.
func (k *Kit) Tail(r *core.Rand, o RenderOpts) []byte {
	nl := nlOf(o)
	var sb strings.Builder
	switch k.Format {
	case "edi":
		if !k.NoTrailer {
			sb.WriteString("TRL" + k.SegDelim)
		}
	case "json":
		if o.BlankLines {
			sb.WriteString(nl)
		}
		if k.TopArray {
			sb.WriteString("]")
		} else {
			sb.WriteString(`],"tail":1}`)
		}
		if !o.NoFinalTerminator {
			sb.WriteString(nl)
		}
	case "xml":
		if o.BlankLines {
			sb.WriteString(nl)
		}
		sb.WriteString("<tail/></root>")
		if !o.NoFinalTerminator {
			sb.WriteString(nl)
		}
	}
	return []byte(sb.String())
}

// OneRec renders one record (with the separator the format needs before / after it).
func (k *Kit) OneRec(r *core.Rand, rec Rec, o RenderOpts, first, last bool) []byte {
	nl := nlOf(o)
	var sb strings.Builder
	rw := append([]string{rec.ID, rec.Num}, rec.F...)
	sep := func() {
		if o.BlankLines && r.Chance(1, 3) {
			sb.WriteString(nl)
		}
	}
	switch k.Format {
	case "csv", "csv2":
		ls := k.lines()
		for li, l := range ls {
			var cells []string
			if l.tag != "" {
				cells = append(cells, l.tag)
			}
			for _, j := range l.fields {
				cells = append(cells, rw[j])
			}
			if rec.Short > 0 && len(ls) == 1 && len(cells)-rec.Short >= 2 {
				cells = cells[:len(cells)-rec.Short]
			}
			sb.WriteString(k.csvRow(r, cells))
			if !last || li < len(ls)-1 || !o.NoFinalTerminator {
				sb.WriteString(nl)
			}
			if o.BlankLines && li < len(ls)-1 && r.Chance(1, 4) {
				sb.WriteString(nl) // an empty line between two rows of one record (skipped by the reader like any other)
			}
		}
		sep()
	case "fixed-length", "fixedlength2":
		ls := k.lines()
		for li, l := range ls {
			sb.WriteString(l.tag)
			for _, j := range l.fields {
				sb.WriteString(PadRunes(rw[j], k.Widths[j], ' '))
			}
			if !last || li < len(ls)-1 || !o.NoFinalTerminator {
				sb.WriteString(nl)
			}
			if o.BlankLines && li < len(ls)-1 && r.Chance(1, 4) {
				sb.WriteString(nl)
			}
		}
		sep()
	case "edi":
		sb.WriteString("REC")
		for _, p := range rw {
			sb.WriteString(k.ElemDelim)
			sb.WriteString(EscapeEDI(p, k.Release, k.SegDelim, k.ElemDelim))
		}
		sb.WriteString(k.SegDelim)
		if k.IgnoreCRLF && o.BlankLines && r.Chance(1, 2) {
			sb.WriteString(nl)
		}
	case "json":
		if !first {
			sb.WriteString(",")
		}
		if o.BlankLines {
			sb.WriteString(nl + "  ")
		}
		sb.WriteString("{")
		for j, c := range k.colNames() {
			if j > 0 {
				sb.WriteString(",")
			}
			sb.WriteString(EncodeJSONString(nil, c, false) + ":" + EncodeJSONString(nil, rw[j], false))
		}
		sb.WriteString("}")
	case "xml":
		if o.BlankLines {
			sb.WriteString(nl + "  ")
		}
		fmt.Fprintf(&sb, `<rec num="%s">`, escText(nil, rec.Num, true, '"'))
		for j, c := range k.colNames() {
			fmt.Fprintf(&sb, "<%s>%s</%s>", c, escText(nil, rw[j], false, 0), c)
			if c == "n" && rec.Dup {
				fmt.Fprintf(&sb, "<%s>%s</%s>", c, escText(nil, rw[j], false, 0), c)
			}
		}
		sb.WriteString("</rec>")
	}
	return []byte(sb.String())
}
