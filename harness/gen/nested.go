package gen

import (
	"fmt"
	"strconv"
	"strings"

	"verif/harness/core"
)

// Nested is a workload of nested XML or JSON records under groups (ancestors whose content changes between records).
type Nested struct {
	Format string // "xml" | "json"
	Target string // target xpath
	Input  []byte
	NRecs  int
}

func nVal(r *core.Rand) string {
	return r.Pick("x", "y", " x ", "", "1", "2", "10", "a b", "é", "0", "true", "3.5", "-7")
}

// GenNested builds a nested document with ngroups groups of records.
func GenNested(r *core.Rand, format string, ngroups, maxRecs int, pretty bool) *Nested {
	n := &Nested{Format: format}
	nl, ind := "", ""
	if pretty {
		nl, ind = "\n", "  "
	}
	var sb strings.Builder
	id := 0
	if format == "xml" {
		n.Target = "/root/grp/rec"
		// a third of the documents carry namespace-prefixed twins of the fields (same local names): a bare name must not select them
		twins := r.Chance(1, 3)
		if twins {
			sb.WriteString(`<root xmlns:v="urn:v">` + nl)
		} else {
			sb.WriteString("<root>" + nl)
		}
		for g := 0; g < ngroups; g++ {
			fmt.Fprintf(&sb, `%s<grp gid="g%d">%s%s<note>note %d %s</note>%s`, ind, g, nl, ind+ind, g, nVal(r), nl)
			for i := 0; i < r.Range(1, maxRecs); i++ {
				id++
				n.NRecs++
				sb.WriteString(ind + ind)
				fmt.Fprintf(&sb, `<rec id="r%d"><id>r%d</id><n>%d</n><f1>%s</f1>`, id, id, r.Range(0, 50), escText(nil, nVal(r), false, 0))
				if twins {
					fmt.Fprintf(&sb, `<v:id>twin%d</v:id><v:n>x</v:n><v:f1 v:id="va">t</v:f1><v:a>ta</v:a>`, id)
				}
				if r.Bool() {
					fmt.Fprintf(&sb, `<a>outer%d<a>inner%d</a></a>`, id, id)
				} else {
					fmt.Fprintf(&sb, `<a>only%d</a>`, id)
				}
				sb.WriteString("<items>")
				for j := 0; j < r.Range(0, 3); j++ {
					fmt.Fprintf(&sb, `<item k="%d"><k>%s</k><v>%d</v>`, j, r.Pick("x", "y", "z"), r.Range(0, 9))
					if r.Chance(1, 3) {
						fmt.Fprintf(&sb, `<item><k>%s</k><v>%d</v></item>`, r.Pick("x", "y", "z"), r.Range(0, 9))
					}
					sb.WriteString("</item>")
				}
				sb.WriteString("</items><tags>")
				for j := 0; j < r.Range(0, 3); j++ {
					fmt.Fprintf(&sb, "<t>%s</t>", r.Pick("a", "b", "c"))
				}
				sb.WriteString("</tags><empty/></rec>" + nl)
			}
			sb.WriteString(ind + "</grp>" + nl)
		}
		sb.WriteString("</root>" + nl)
	} else {
		n.Target = "/grps/*/recs/*"
		sb.WriteString(`{"grps":[` + nl)
		for g := 0; g < ngroups; g++ {
			if g > 0 {
				sb.WriteString("," + nl)
			}
			fmt.Fprintf(&sb, `%s{"gid":"g%d","note":"note %d %s","recs":[%s`, ind, g, g, nVal(r), nl)
			nr := r.Range(1, maxRecs)
			for i := 0; i < nr; i++ {
				id++
				n.NRecs++
				if i > 0 {
					sb.WriteString("," + nl)
				}
				sb.WriteString(ind + ind)
				fmt.Fprintf(&sb, `{"id":"r%d","n":"%d","f1":%s,`, id, r.Range(0, 50), strconv.Quote(nVal(r)))
				if r.Bool() {
					fmt.Fprintf(&sb, `"a":{"t":"outer%d","a":"inner%d"},`, id, id)
				} else {
					fmt.Fprintf(&sb, `"a":"only%d",`, id)
				}
				sb.WriteString(`"items":[`)
				for j := 0; j < r.Range(0, 3); j++ {
					if j > 0 {
						sb.WriteString(",")
					}
					fmt.Fprintf(&sb, `{"k":"%s","v":%d`, r.Pick("x", "y", "z"), r.Range(0, 9))
					if r.Chance(1, 3) {
						fmt.Fprintf(&sb, `,"item":{"k":"%s","v":%d}`, r.Pick("x", "y", "z"), r.Range(0, 9))
					}
					sb.WriteString("}")
				}
				sb.WriteString(`],"tags":[`)
				for j := 0; j < r.Range(0, 3); j++ {
					if j > 0 {
						sb.WriteString(",")
					}
					sb.WriteString(strconv.Quote(r.Pick("a", "b", "c")))
				}
				fmt.Fprintf(&sb, `],"empty":{},"nul":null,"num":%s,"flag":%v}`, r.Pick("12.5", "0", "7", "-1e2"), r.Bool())
			}
			sb.WriteString(nl + ind + "]}")
		}
		sb.WriteString(nl + "]}" + nl)
	}
	n.Input = []byte(sb.String())
	return n
}

// Vocab returns the path vocabulary of a nested record.
func (n *Nested) Vocab() *Vocab {
	itemV := &Vocab{Single: []string{"k", "v", "."}, Multi: []string{"*", "item", ".//k"}, Anchor: []string{".", "k"}, Numeric: []string{"v"}}
	if n.Format == "xml" {
		return &Vocab{
			Single:  []string{"id", "n", "f1", "@id", "items", "tags", "empty", "a", "items/item[1]/k", "tags/t[1]"},
			Multi:   []string{"items/item", ".//item", "tags/t", "*", ".//a", "items/item/k", "items/item[k='x']", "tags/t[.='a']", ".//k", "a"},
			Anchor:  []string{".", "items", "a", "tags", "items/item[1]"},
			Numeric: []string{"n", "items/item[1]/v"},
			Up:      []string{"..", "../note", "../@gid", "ancestor::grp/note"},
			Children: map[string]*Vocab{
				"items/item": itemV, ".//item": itemV, "items/item[k='x']": itemV, "items/item[1]": itemV,
				"items": {Single: []string{"item[1]/k", "."}, Multi: []string{"item", "item/k", "*"}, Anchor: []string{".", "item[1]"}, Numeric: []string{"item[1]/v"}},
				"a":     {Single: []string{"a", "."}, Multi: []string{"a", ".//a", "text()"}, Anchor: []string{"."}},
				"tags":  {Single: []string{"t[1]", "."}, Multi: []string{"t", "*"}, Anchor: []string{"."}},
			},
		}
	}
	return &Vocab{
		Single:  []string{"id", "n", "f1", "items", "tags", "empty", "a", "num", "flag", "nul", "items/*[1]/k", "tags/*[1]"},
		Multi:   []string{"items/*", ".//item", "tags/*", "*", ".//a", "items/*/k", "items/*[k='x']", "tags/*[.='a']", ".//k"},
		Anchor:  []string{".", "items", "a", "tags", "items/*[1]"},
		Numeric: []string{"n", "num", "items/*[1]/v"},
		Up:      []string{"..", "../..", "../../note", "../../gid"},
		Children: map[string]*Vocab{
			"items/*": itemV, ".//item": itemV, "items/*[k='x']": itemV, "items/*[1]": itemV,
			"items": {Single: []string{"*[1]/k", "."}, Multi: []string{"*", "*/k"}, Anchor: []string{".", "*[1]"}, Numeric: []string{"*[1]/v"}},
			"a":     {Single: []string{"a", "t", "."}, Multi: []string{"*", ".//a"}, Anchor: []string{"."}},
			"tags":  {Single: []string{"*[1]", "."}, Multi: []string{"*"}, Anchor: []string{"."}},
		},
	}
}
