package gen

import (
	"fmt"
	"strconv"
	"strings"

	"verif/harness/core"
)

// XKind enumerates node kinds of the logical XML model.
type XKind int

const (
	XElem XKind = iota
	XText
	XCData
	XComment
	XPI
)

// XAttr is a logical attribute.
type XAttr struct {
	Prefix, Local, Value string
}

// XNS is a namespace declaration on an element ("" prefix = default namespace).
type XNS struct {
	Prefix, URI string
}

// XNode is a logical XML node.
type XNode struct {
	Kind     XKind
	Prefix   string
	Local    string
	URI      string // resolved namespace URI of the element (generator's own resolution)
	NS       []XNS
	Attrs    []XAttr
	Children []*XNode
	Text     string // for text / cdata / comment / pi
	ID       string // value of the unique id attribute (elements only)
}

// XMLOpts steers GenXML.
type XMLOpts struct {
	MaxDepth   int
	MaxFan     int
	Names      []string // element name alphabet (small, so that names repeat at several depths)
	Namespaces bool
	Mixed      bool // text between elements
	Noise      bool // comments, PIs, CDATA
	AttrProb   int  // out of 10
	TextValues []string
}

type nsScope map[string]string // prefix -> uri

var nsPool = []XNS{{"", "urn:d"}, {"p", "urn:p"}, {"q", "urn:q"}, {"r", "urn:r"}, {"p", "urn:p2"}, {"", "urn:d2"},
	// the same URIs under other prefixes: only ever declared where no other prefix is bound to that URI in scope (sibling subtrees)
	{"s", "urn:p"}, {"t", "urn:q"}, {"", "urn:r"}, {"q", "urn:d"}}

var xmlTextRunes = []rune{'<', '>', '&', '"', '\'', ' ', '\n', '\t', 'é', '中', '😀', ']', 'a', 'b', '1', '2', 'x', 'y', ' '}

// XMLText generates character data.
func XMLText(r *core.Rand, maxLen int) string {
	n := r.Range(1, maxLen)
	var sb strings.Builder
	for i := 0; i < n; i++ {
		if r.Chance(1, 3) {
			sb.WriteRune(xmlTextRunes[r.Intn(len(xmlTextRunes))])
		} else {
			sb.WriteByte("abcdefxyz0123456789"[r.Intn(19)])
		}
	}
	return sb.String()
}

// GenXML generates a logical document (the returned node is the document element).
func GenXML(r *core.Rand, o XMLOpts) *XNode {
	id := 0
	return genElem(r, o, 0, nsScope{}, &id)
}

func genElem(r *core.Rand, o XMLOpts, depth int, scope nsScope, id *int) *XNode {
	*id++
	e := &XNode{Kind: XElem, Local: o.Names[r.Intn(len(o.Names))], ID: "e" + strconv.Itoa(*id)}
	inner := nsScope{}
	for k, v := range scope {
		inner[k] = v
	}
	// innermost maps a URI to the prefix of its innermost declaration in scope (kept in the scope map under "\x00"+uri). The library
	// (like anything built on the standard decoder, which reports URIs, not lexical prefixes) names a node by the innermost prefix
	// declared for its URI; where two prefixes are bound to one URI the generator therefore only writes the innermost one.
	innermost := func(uri string) (string, bool) { p, ok := inner["\x00"+uri]; return p, ok }
	usable := func() []string {
		var ps []string
		for p, uri := range inner {
			if p == "" || strings.HasPrefix(p, "\x00") {
				continue
			}
			if q, ok := innermost(uri); ok && q == p {
				ps = append(ps, p)
			}
		}
		sortStrings(ps)
		return ps
	}
	if o.Namespaces {
		// declare 0..2 namespaces here (never two declarations for one prefix or for one URI on the same element)
		for i := 0; i < 2; i++ {
			if r.Chance(1, 4) {
				ns := nsPool[r.Intn(len(nsPool))]
				dup := false
				for _, have := range e.NS {
					if have.Prefix == ns.Prefix || have.URI == ns.URI {
						dup = true
					}
				}
				if dup {
					continue
				}
				e.NS = append(e.NS, ns)
				inner[ns.Prefix] = ns.URI
				inner["\x00"+ns.URI] = ns.Prefix
			}
		}
		if depth > 0 && inner[""] != "" && r.Chance(1, 12) {
			// un-declare the default namespace
			has := false
			for _, have := range e.NS {
				if have.Prefix == "" {
					has = true
				}
			}
			if !has {
				e.NS = append(e.NS, XNS{"", ""})
				inner[""] = ""
			}
		}
		// choose a prefix in scope
		prefixes := usable()
		if len(prefixes) > 0 && r.Chance(1, 2) {
			e.Prefix = prefixes[r.Intn(len(prefixes))]
		}
		if e.Prefix == "" && inner[""] != "" {
			if q, _ := innermost(inner[""]); q != "" {
				// the default namespace's URI has a more recent prefixed declaration: write this element with that prefix if it still
				// means the same URI, otherwise declare the default namespace again right here
				if inner[q] == inner[""] {
					e.Prefix = q
				} else {
					// (this element declares neither a default namespace nor that URI itself, or one of the cases above would apply)
					e.NS = append(e.NS, XNS{"", inner[""]})
					inner["\x00"+inner[""]] = ""
				}
			}
		}
		e.URI = inner[e.Prefix]
	}
	e.Attrs = append(e.Attrs, XAttr{"", "id", e.ID})
	if r.Intn(10) < o.AttrProb {
		n := r.Range(1, 3)
		seen := map[string]bool{"id": true}
		for i := 0; i < n; i++ {
			a := XAttr{Local: []string{"k", "v", "t", "a"}[r.Intn(4)]}
			if o.Namespaces && r.Chance(1, 4) {
				prefixes := usable()
				if len(prefixes) > 0 {
					a.Prefix = prefixes[r.Intn(len(prefixes))]
				}
			}
			if o.Namespaces && r.Chance(1, 10) {
				a.Prefix, a.Local = "xml", "lang"
			}
			key := inner[a.Prefix] + "|" + a.Local // two attributes with the same expanded name are not well-formed
			if a.Prefix == "" {
				key = "|" + a.Local
			}
			if seen[key] {
				continue
			}
			seen[key] = true
			if len(o.TextValues) > 0 && r.Chance(2, 3) {
				a.Value = o.TextValues[r.Intn(len(o.TextValues))]
			} else {
				a.Value = XMLText(r, 6)
			}
			e.Attrs = append(e.Attrs, a)
		}
	}
	// children
	if depth < o.MaxDepth {
		n := r.Intn(o.MaxFan + 1)
		for i := 0; i < n; i++ {
			if o.Mixed && r.Chance(1, 3) {
				e.Children = append(e.Children, genText(r, o))
				if o.Noise && r.Chance(1, 4) {
					// character data interrupted by a comment / processing instruction: two text nodes with nothing but markup the tree
					// does not represent in between
					if r.Bool() {
						e.Children = append(e.Children, &XNode{Kind: XComment, Text: " split "})
					} else {
						e.Children = append(e.Children, &XNode{Kind: XPI, Local: "pi", Text: "split"})
					}
					e.Children = append(e.Children, genText(r, o))
				}
			}
			if o.Noise && r.Chance(1, 8) {
				if r.Bool() {
					e.Children = append(e.Children, &XNode{Kind: XComment, Text: " c" + strconv.Itoa(r.Intn(100)) + " "})
				} else {
					e.Children = append(e.Children, &XNode{Kind: XPI, Local: "pi", Text: "x=" + strconv.Itoa(r.Intn(100))})
				}
			}
			e.Children = append(e.Children, genElem(r, o, depth+1, inner, id))
		}
		if o.Mixed && r.Chance(1, 3) {
			e.Children = append(e.Children, genText(r, o))
		}
	}
	if len(e.Children) == 0 && r.Chance(2, 3) {
		e.Children = append(e.Children, genText(r, o))
	}
	return e
}

func genText(r *core.Rand, o XMLOpts) *XNode {
	t := &XNode{Kind: XText}
	switch {
	case len(o.TextValues) > 0 && r.Chance(2, 3):
		t.Text = o.TextValues[r.Intn(len(o.TextValues))]
	case r.Chance(1, 5):
		t.Text = []string{" ", "\n", "\n  ", "\t"}[r.Intn(4)]
	default:
		t.Text = XMLText(r, 8)
	}
	if o.Noise && r.Chance(1, 5) && !strings.Contains(t.Text, "]]>") {
		t.Kind = XCData
	}
	return t
}

func sortStrings(s []string) {
	for i := 1; i < len(s); i++ {
		for j := i; j > 0 && s[j] < s[j-1]; j-- {
			s[j], s[j-1] = s[j-1], s[j]
		}
	}
}

func escText(r *core.Rand, s string, attr bool, quote byte) string {
	var sb strings.Builder
	for _, c := range s {
		switch {
		case c == '<':
			sb.WriteString("&lt;")
		case c == '&':
			sb.WriteString("&amp;")
		case c == '>':
			sb.WriteString("&gt;")
		case attr && byte(c) == quote && c < 0x80:
			if quote == '"' {
				sb.WriteString("&quot;")
			} else {
				sb.WriteString("&apos;")
			}
		case attr && (c == '\n' || c == '\t' || c == '\r'):
			fmt.Fprintf(&sb, "&#%d;", c) // literal whitespace in attribute values is normalised by XML; keep it as a reference
		case c == '\r':
			sb.WriteString("&#13;")
		case r != nil && r.Chance(1, 12):
			if r.Bool() {
				fmt.Fprintf(&sb, "&#%d;", c)
			} else {
				fmt.Fprintf(&sb, "&#x%X;", c)
			}
		default:
			sb.WriteRune(c)
		}
	}
	return sb.String()
}

// EncodeXML serialises the logical document with the harness's own writer.
func EncodeXML(r *core.Rand, root *XNode, decl bool) string {
	var sb strings.Builder
	if decl {
		sb.WriteString(`<?xml version="1.0" encoding="UTF-8"?>`)
		if r.Bool() {
			sb.WriteString("\n")
		}
		if r.Chance(1, 4) {
			sb.WriteString("<!DOCTYPE " + root.qname() + ">")
		}
		if r.Chance(1, 4) {
			sb.WriteString("<!-- leading comment -->")
		}
	}
	encodeXML(r, &sb, root)
	if r.Chance(1, 4) {
		sb.WriteString("\n")
	}
	return sb.String()
}

func (n *XNode) qname() string {
	if n.Prefix != "" {
		return n.Prefix + ":" + n.Local
	}
	return n.Local
}

func encodeXML(r *core.Rand, sb *strings.Builder, n *XNode) {
	switch n.Kind {
	case XText:
		sb.WriteString(escText(r, n.Text, false, 0))
	case XCData:
		sb.WriteString("<![CDATA[" + n.Text + "]]>")
	case XComment:
		sb.WriteString("<!--" + n.Text + "-->")
	case XPI:
		sb.WriteString("<?" + n.Local + " " + n.Text + "?>")
	case XElem:
		sb.WriteString("<" + n.qname())
		// namespace declarations and attributes in a random but recorded order: declarations first or last
		writeNS := func() {
			for _, ns := range n.NS {
				if ns.Prefix == "" {
					sb.WriteString(` xmlns="` + ns.URI + `"`)
				} else {
					sb.WriteString(` xmlns:` + ns.Prefix + `="` + ns.URI + `"`)
				}
			}
		}
		writeNS()
		for _, a := range n.Attrs {
			q := byte('"')
			if r.Chance(1, 4) {
				q = '\''
			}
			name := a.Local
			if a.Prefix != "" {
				name = a.Prefix + ":" + a.Local
			}
			sb.WriteString(" " + name + "=" + string(q) + escText(r, a.Value, true, q) + string(q))
		}
		if len(n.Children) == 0 && r.Bool() {
			sb.WriteString("/>")
			return
		}
		sb.WriteString(">")
		for _, c := range n.Children {
			encodeXML(r, sb, c)
		}
		sb.WriteString("</" + n.qname() + ">")
	}
}

// Elements returns all element nodes in document order.
func (n *XNode) Elements() []*XNode {
	var out []*XNode
	var walk func(*XNode)
	walk = func(x *XNode) {
		if x.Kind != XElem {
			return
		}
		out = append(out, x)
		for _, c := range x.Children {
			walk(c)
		}
	}
	walk(n)
	return out
}
