package gen

import (
	"encoding/json"
	"fmt"
	"strconv"
	"strings"

	"verif/harness/core"
)

// Vocab describes which relative xpaths make sense from a record (or from an inner cursor) for the rich schema generator.
type Vocab struct {
	Single   []string // usually exactly one match (or none)
	Multi    []string // possibly several matches
	Anchor   []string // element nodes with children: good cursors for object / template / custom_func
	Numeric  []string // leaves whose text is numeric
	Up       []string // paths that leave the record (ancestors) — only used when AllowUp
	Children map[string]*Vocab
}

// RichOpts steers GenRichDecls.
type RichOpts struct {
	MaxDepth   int
	JS         bool // allow javascript / javascript_with_context
	AllowUp    bool // allow paths to ancestors of the record
	HarnessFns bool // allow vf_* functions
	Copy       bool // allow the copy function
	FailFn     bool // allow vf_fail
	Externals  []string
}

type richGen struct {
	r         *core.Rand
	o         RichOpts
	templates map[string]interface{}
	tmplNames []string
	tmplHasXP map[string]bool
	pool      []map[string]interface{} // xpath-bearing declarations generated so far (for textual duplication)
	Stats     map[string]int
}

type D = map[string]interface{}

func (g *richGen) flags(d D, str bool) D {
	r := g.r
	if str && r.Chance(1, 4) {
		d["no_trim"] = true
	}
	if r.Chance(1, 4) {
		d["keep_empty_or_null"] = true
	}
	return d
}

func (g *richGen) pickPath(v *Vocab, multi bool) string {
	r := g.r
	var cands []string
	if multi {
		cands = append(cands, v.Multi...)
		cands = append(cands, v.Multi...)
		cands = append(cands, v.Single...)
	} else {
		cands = append(cands, v.Single...)
		cands = append(cands, v.Single...)
		if r.Chance(1, 6) {
			cands = append(cands, v.Multi...) // several matches under a single-match context: per-record failure
		}
	}
	if g.o.AllowUp && r.Chance(1, 3) && len(v.Up) > 0 {
		cands = append(cands, v.Up...)
	}
	if r.Chance(1, 10) {
		return "zz" // matches nothing
	}
	if len(cands) == 0 {
		return "."
	}
	return cands[r.Intn(len(cands))]
}

func (g *richGen) xpathInto(d D, v *Vocab, multi bool) (string, D) {
	p := g.pickPath(v, multi)
	if g.r.Chance(1, 8) {
		g.Stats["xpath_dynamic"]++
		// xpath_dynamic: const, or concat of const pieces, or (rarely) a field of the record whose text is then used as the xpath
		if g.r.Chance(1, 5) {
			fd := D{"xpath": g.pickPath(v, false)}
			d["xpath_dynamic"] = fd
			g.pool = append(g.pool, fd) // the same declaration text also shows up as a regular declaration elsewhere
			g.Stats["xpath_dynamic_from_field"]++
		} else if g.r.Bool() || len(p) < 2 {
			d["xpath_dynamic"] = D{"const": p}
		} else {
			cut := g.r.Range(1, len(p)-1)
			d["xpath_dynamic"] = D{"custom_func": D{"name": "concat", "args": []interface{}{D{"const": p[:cut], "no_trim": true}, D{"const": p[cut:], "no_trim": true}}}}
		}
	} else {
		d["xpath"] = p
	}
	return p, d
}

func (g *richGen) childVocab(v *Vocab, path string) *Vocab {
	if v.Children != nil {
		if cv, ok := v.Children[path]; ok {
			return cv
		}
	}
	return &Vocab{Single: []string{"."}, Multi: []string{"*", ".//*"}}
}

var typeNames = []string{"int", "float", "boolean", "string"}

// strDecl generates a declaration that yields a string (or nothing), suitable as a string argument.
func (g *richGen) strDecl(v *Vocab, depth int) D {
	r := g.r
	switch k := r.Intn(10); {
	case k < 2:
		g.Stats["const"]++
		return g.flags(D{"const": r.Pick("c", " pad ", "", "X1", "0", "1.5", "true", " ")}, true)
	case k < 3 && len(g.o.Externals) > 0:
		g.Stats["external"]++
		ext := g.o.Externals[r.Intn(len(g.o.Externals))]
		if ext == "missing" && r.Chance(3, 4) {
			ext = g.o.Externals[0]
		}
		return g.flags(D{"external": ext}, true)
	case k < 8 || depth >= g.o.MaxDepth:
		g.Stats["field"]++
		d := D{}
		_, d = g.xpathInto(d, v, false)
		g.pool = append(g.pool, d)
		return g.flags(d, true)
	default:
		return g.funcDecl(v, depth+1, true)
	}
}

// funcDecl generates a custom_func declaration; strOnly restricts to functions that return strings.
func (g *richGen) funcDecl(v *Vocab, depth int, strOnly bool) D {
	r := g.r
	g.Stats["custom_func"]++
	names := []string{"concat", "lower", "upper", "coalesce", "uuidv3"}
	if g.o.HarnessFns {
		names = append(names, "vf_s", "vf_2", "vf_i", "vf_f", "vf_b", "vf_n")
		if !strOnly {
			names = append(names, "vf_int", "vf_float", "vf_bool")
		}
		if g.o.FailFn {
			names = append(names, "vf_fail")
		}
	}
	if g.o.Copy && !strOnly {
		names = append(names, "copy")
	}
	if g.o.JS {
		names = append(names, "javascript", "javascript", "javascript_with_context")
	}
	name := names[r.Intn(len(names))]
	g.Stats["fn:"+name]++
	var args []interface{}
	arg := func() D { return g.strDecl(v, depth+1) }
	switch name {
	case "concat", "coalesce", "vf_s":
		for i := 0; i < r.Range(0, 3); i++ {
			args = append(args, arg())
		}
	case "lower", "upper", "uuidv3", "vf_fail", "vf_int", "vf_float", "vf_bool":
		args = append(args, arg())
	case "vf_2":
		args = append(args, arg(), arg())
	case "vf_i":
		args = append(args, D{"const": strconv.Itoa(r.Range(-5, 99)), "type": "int"}, arg())
	case "vf_f":
		args = append(args, D{"const": r.Pick("1.5", "2", "-0.25", "1e3"), "type": "float"})
	case "vf_b":
		args = append(args, D{"const": r.Pick("true", "false", "1", "0"), "type": "boolean"})
	case "vf_n":
		args = append(args, arg())
	case "copy":
	case "javascript", "javascript_with_context":
		names := []string{"p0", "p1", "p2", "p3"}
		used := r.Perm(len(names))[:r.Range(0, 3)]
		var terms []string
		for _, u := range used {
			terms = append(terms, "String("+names[u]+")")
		}
		script := "'js:' + [" + strings.Join(terms, ",") + "].join('|')"
		if name == "javascript_with_context" {
			g.Stats["js_with_context"]++
			script = "'jsn:' + _node.length + ':' + _node + [" + strings.Join(terms, ",") + "].join('|')"
		}
		// which of the four names are defined at all is part of the result: only the ones this call passes may be
		script += " + '/' + [typeof p0, typeof p1, typeof p2, typeof p3].join(',')"
		throws := len(used) > 0 && r.Chance(1, 5)
		variant := r.Intn(5)
		if throws {
			// a script that fails after its arguments were set; the failure is ignored (the call yields no value)
			script = "(function(){ if (" + names[used[0]] + " !== undefined) { throw new Error('refused') } return 'unreachable' })()"
			variant = 3
			g.Stats["js_script_that_throws_with_ignore_error"]++
		}
		if strOnly && variant > 0 {
			variant = 3 // arrays / objects are not valid string arguments
		}
		switch variant {
		case 0:
			script = "(function(){ return " + script + "; })()"
		case 1:
			script = "[" + script + ", 1, true]"
		case 2:
			script = "({v: " + script + ", n: 2.5})"
		}
		if name == "javascript" && g.o.Copy && !strOnly && !throws && r.Chance(1, 6) {
			// a script that is handed a copy of the cursor's subtree and writes into the objects it finds there: what it is handed is its own
			script = "(function(){ var n = 0; for (var k in rec) { var v = rec[k]; if (v && typeof v === 'object' && !(v instanceof Array)) { v.touched_by_script = true; n++ } } return 'js:wrote:' + n })()"
			args = append(args, D{"const": script}, D{"const": "rec"}, D{"custom_func": D{"name": "copy"}, "keep_empty_or_null": true})
			used = nil
			g.Stats["js_script_writing_into_a_copy"]++
		} else {
			args = append(args, D{"const": script})
		}
		for _, u := range used {
			var val D
			switch r.Intn(4) {
			case 0:
				val = D{"const": strconv.Itoa(r.Range(0, 50)), "type": "int"}
			case 1:
				val = D{"const": r.Pick("1.25", "3"), "type": "float"}
			default:
				val = arg()
				val["keep_empty_or_null"] = true // an absent value would be passed as null and render as "null"
			}
			args = append(args, D{"const": names[u]}, val)
		}
	}
	cf := D{"name": name}
	if args != nil {
		cf["args"] = args
	} else if r.Bool() {
		cf["args"] = []interface{}{}
	}
	if r.Chance(1, 6) {
		cf["ignore_error"] = true
	}
	if sc, ok := cf["args"].([]interface{}); ok && len(sc) > 0 {
		if first, ok := sc[0].(D); ok {
			if txt, _ := first["const"].(string); strings.Contains(txt, "throw new Error('refused')") {
				cf["ignore_error"] = true
			}
		}
	}
	d := D{"custom_func": cf}
	if g.o.AllowUp && name == "javascript_with_context" && len(v.Up) > 0 && r.Chance(1, 2) {
		d["xpath"] = v.Up[r.Intn(len(v.Up))]
		g.Stats["js_with_context_on_ancestor"]++
	} else if r.Chance(1, 3) && len(v.Anchor) > 0 {
		p := v.Anchor[r.Intn(len(v.Anchor))]
		d["xpath"] = p
		// arguments are evaluated from the anchored cursor: regenerate them against the child vocabulary
		cv := g.childVocab(v, p)
		if name != "javascript" && name != "javascript_with_context" && name != "vf_i" && name != "vf_f" && name != "vf_b" {
			var a2 []interface{}
			for range args {
				a2 = append(a2, g.strDecl(cv, depth+1))
			}
			if a2 != nil {
				cf["args"] = a2
			}
		}
		g.pool = append(g.pool, d)
	}
	if !strOnly && r.Chance(1, 6) {
		d["type"] = typeNames[r.Intn(4)]
	}
	return g.flags(d, true)
}

// anyDecl generates a declaration of any kind valid as an object field.
func (g *richGen) anyDecl(v *Vocab, depth int, inArray bool) D {
	r := g.r
	if depth >= g.o.MaxDepth {
		return g.strDecl(v, depth)
	}
	switch k := r.Intn(20); {
	case k < 6:
		d := g.strDecl(v, depth)
		if r.Chance(1, 5) {
			if _, isConst := d["const"]; isConst || len(v.Numeric) > 0 {
				d["type"] = typeNames[r.Intn(4)]
				if _, ok := d["xpath"]; ok && len(v.Numeric) > 0 && r.Chance(2, 3) {
					d["xpath"] = v.Numeric[r.Intn(len(v.Numeric))]
				}
			}
		}
		if inArray {
			// directly under array: the xpath multi-selects
			if _, ok := d["xpath"]; ok && r.Chance(2, 3) {
				d["xpath"] = g.pickPath(v, true)
			}
		}
		return d
	case k < 10:
		g.Stats["object"]++
		d := D{}
		cv := v
		if r.Chance(1, 2) && len(v.Anchor) > 0 {
			var p string
			if inArray && len(v.Multi) > 0 && r.Chance(2, 3) {
				p = v.Multi[r.Intn(len(v.Multi))]
				d["xpath"] = p
			} else {
				p = v.Anchor[r.Intn(len(v.Anchor))]
				d["xpath"] = p
			}
			cv = g.childVocab(v, p)
			g.pool = append(g.pool, d)
		}
		obj := D{}
		for i := 0; i < r.Range(0, 4); i++ {
			key := r.Pick("a", "b", "k1", "k.2", "k%3", "id", "n", "zz", "Z", "x y")
			obj[key] = g.anyDecl(cv, depth+1, false)
		}
		d["object"] = obj
		if r.Chance(1, 4) {
			d["keep_empty_or_null"] = true
		}
		return d
	case k < 13 && !inArray:
		g.Stats["array"]++
		var arr []interface{}
		for i := 0; i < r.Range(0, 3); i++ {
			arr = append(arr, g.anyDecl(v, depth+1, true))
		}
		if arr == nil {
			arr = []interface{}{}
		}
		d := D{"array": arr}
		if r.Chance(1, 4) {
			d["keep_empty_or_null"] = true
		}
		return d
	case k < 16 && len(g.tmplNames) > 0:
		g.Stats["template_ref"]++
		name := g.tmplNames[r.Intn(len(g.tmplNames))]
		d := D{"template": name}
		if !g.tmplHasXP[name] && r.Chance(1, 2) {
			if inArray {
				d["xpath"] = g.pickPath(v, true)
			} else if len(v.Anchor) > 0 {
				d["xpath"] = v.Anchor[r.Intn(len(v.Anchor))]
			}
			if xp, ok := d["xpath"].(string); ok && r.Chance(1, 3) {
				delete(d, "xpath")
				d["xpath_dynamic"] = D{"const": xp}
				g.Stats["template_ref_with_xpath_dynamic"]++
			}
		}
		return d
	default:
		return g.funcDecl(v, depth+1, false)
	}
}

func hasXP(d D) bool {
	_, a := d["xpath"]
	_, b := d["xpath_dynamic"]
	return a || b
}

// GenRichDecls generates a transform_declarations object (FINAL_OUTPUT body is an object without xpath; the caller sets
// FINAL_OUTPUT.xpath to the target). Stats reports the constructs used.
func GenRichDecls(r *core.Rand, v *Vocab, o RichOpts) (D, map[string]int) {
	g := &richGen{r: r, o: o, templates: D{}, tmplHasXP: map[string]bool{}, Stats: map[string]int{}}
	// templates first (bodies never reference other templates: no cycles by construction; nesting of templates comes
	// from later templates referencing earlier ones)
	nt := r.Range(1, 4)
	for i := 0; i < nt; i++ {
		name := fmt.Sprintf("tpl%d", i+1)
		var body D
		switch r.Intn(6) {
		case 0:
			body = D{"object": D{}}
		case 1:
			body = D{"array": []interface{}{}}
		case 2:
			body = g.strDecl(v, g.o.MaxDepth) // a field / const
		default:
			body = g.anyDecl(&Vocab{Single: append([]string{"."}, v.Single...), Multi: v.Multi, Anchor: v.Anchor, Numeric: v.Numeric, Children: v.Children}, g.o.MaxDepth-2, false)
		}
		if _, isArr := body["array"]; isArr {
			delete(body, "xpath")
		}
		g.templates[name] = body
		g.tmplHasXP[name] = hasXP(body)
		if t, ok := body["template"].(string); ok && g.tmplHasXP[t] {
			g.tmplHasXP[name] = true
		}
		if _, isArr := body["array"]; isArr {
			g.tmplHasXP[name] = true // xpath on a template reference whose body is an array is not a valid schema
		}
		if _, isC := body["const"]; isC {
			g.tmplHasXP[name] = true
		}
		if _, isE := body["external"]; isE {
			g.tmplHasXP[name] = true
		}
		g.tmplNames = append(g.tmplNames, name)
	}
	obj := D{}
	nf := r.Range(2, 7)
	for i := 0; i < nf; i++ {
		obj[fmt.Sprintf("o%d", i)] = g.anyDecl(v, 1, false)
	}
	// textual duplication: the same xpath-bearing declaration placed at other positions (array element, object field, argument)
	if len(g.pool) > 0 {
		for i := 0; i < r.Range(1, 3); i++ {
			src := g.pool[r.Intn(len(g.pool))]
			b, _ := json.Marshal(src)
			var cp D
			json.Unmarshal(b, &cp)
			g.Stats["duplicated_declarations"]++
			switch r.Intn(3) {
			case 0:
				obj[fmt.Sprintf("dupf%d", i)] = cp
			case 1:
				obj[fmt.Sprintf("dupa%d", i)] = D{"array": []interface{}{cp}}
			default:
				// an object anchored by the same xpath whose field repeats the same declaration (the cache-collision shape)
				if xp, ok := cp["xpath"]; ok {
					var inner D
					json.Unmarshal(b, &inner)
					obj[fmt.Sprintf("dupo%d", i)] = D{"xpath": xp, "object": D{"inner": inner}}
					obj[fmt.Sprintf("dupoa%d", i)] = D{"array": []interface{}{cp}}
				} else {
					obj[fmt.Sprintf("dupf%d", i)] = cp
				}
			}
		}
	}
	// the same template referenced from the same cursor through two different dynamic anchors
	for _, name := range g.tmplNames {
		if g.tmplHasXP[name] || len(v.Anchor) < 2 || !r.Chance(1, 3) {
			continue
		}
		p := r.Perm(len(v.Anchor))
		obj["tdyn1"] = D{"xpath_dynamic": D{"const": v.Anchor[p[0]]}, "template": name}
		obj["tdyn2"] = D{"xpath_dynamic": D{"const": v.Anchor[p[1]]}, "template": name}
		obj["tsta"] = D{"xpath": v.Anchor[p[1]], "template": name}
		g.Stats["template_ref_with_xpath_dynamic"] += 2
		break
	}
	// a declaration that fails on some records, used once as somebody's xpath_dynamic (where a failure is not a record failure) and once,
	// textually identical, as a regular field evaluated from the same cursor (where it is)
	if r.Chance(1, 5) {
		var d D
		switch k := r.Intn(10); {
		case k == 0 && len(v.Multi) > 0:
			d = D{"xpath": v.Multi[r.Intn(len(v.Multi))]} // several matches (on most records)
		case k <= 3 && o.FailFn:
			d = D{"custom_func": D{"name": "vf_fail", "args": []interface{}{D{"xpath": v.Single[r.Intn(len(v.Single))]}}}} // fails on marked records only
		case k == 4:
			d = D{"external": "no_such_external"} // fails on every record
		case k == 5 || len(v.Numeric) == 0:
			d = D{"xpath": v.Single[r.Intn(len(v.Single))], "type": r.Pick("int", "float", "boolean")} // fails on most records
		default:
			d = D{"xpath": v.Numeric[r.Intn(len(v.Numeric))], "type": r.Pick("int", "int", "float")} // fails on the records whose number is not one
		}
		b, _ := json.Marshal(d)
		var twin D
		json.Unmarshal(b, &twin)
		first, second := "adynowner", "zdyntwin"
		if r.Chance(1, 3) {
			first, second = "zdynowner", "adyntwin"
		}
		if r.Bool() {
			obj[first] = D{"xpath_dynamic": d}
		} else {
			obj[first] = D{"array": []interface{}{D{"xpath_dynamic": d}}}
		}
		obj[second] = twin
		_ = second
		g.Stats["failing_xpath_dynamic_with_identical_twin"]++
	}
	// two declarations that are identical but for ignore_error, evaluated from the same cursor, the lenient one first: the function fails
	// on the records that carry the marker in that field (on every record when the argument is the marker itself)
	if o.FailFn && o.HarnessFns && r.Chance(1, 8) {
		var arg D
		if r.Chance(1, 3) {
			arg = D{"const": "x FAIL! y"}
		} else {
			arg = D{"xpath": v.Single[r.Intn(len(v.Single))]}
		}
		mk := func(lenient bool) D {
			b, _ := json.Marshal(arg)
			var a D
			json.Unmarshal(b, &a)
			f := D{"name": "vf_fail", "args": []interface{}{a}}
			if lenient {
				f["ignore_error"] = true
			}
			return D{"custom_func": f}
		}
		first, second := "alenient", "zstrict"
		if r.Chance(1, 4) {
			first, second = "zlenient", "astrict"
		}
		obj[first], obj[second] = mk(true), mk(false)
		g.Stats["lenient_strict_pair_of_identical_calls"]++
	}
	// an array over a union of paths (the engine yields a union operand by operand)
	if len(v.Single) >= 2 && r.Chance(1, 5) {
		p := r.Perm(len(v.Single))
		parts := []string{v.Single[p[0]], v.Single[p[1]]}
		if len(v.Multi) > 0 && r.Bool() {
			parts = append(parts, v.Multi[r.Intn(len(v.Multi))])
		}
		ok := true
		for _, x := range parts {
			if strings.HasPrefix(x, "@") || strings.Contains(x, "/@") {
				ok = false // attribute operands: left to the xpath check (C11)
			}
		}
		if ok {
			obj["union"] = D{"array": []interface{}{D{"xpath": strings.Join(parts, " | ")}}}
			g.Stats["array_over_a_union_of_paths"]++
		}
	}
	// a function of constants only, gated by its own xpath (matches for some records, not for others)
	if r.Chance(1, 3) {
		gate := g.pickPath(v, r.Bool())
		obj["staticfn"] = D{"xpath": gate, "custom_func": D{"name": r.Pick("concat", "upper", "vf_s"), "args": []interface{}{D{"const": "static"}}}}
		g.Stats["static_func_gated_by_xpath"]++
	}
	if r.Chance(1, 6) {
		// an array with more than nine element declarations (element order must be declaration order)
		var arr []interface{}
		for i := 0; i < r.Range(10, 14); i++ {
			arr = append(arr, D{"const": fmt.Sprintf("e%d", i+1)})
		}
		obj["bigarr"] = D{"array": arr}
		g.Stats["array_with_10plus_elements"]++
	}
	if o.AllowUp && len(v.Up) > 0 {
		// the record's ancestors change between records: make sure they are addressed
		up := v.Up[r.Intn(len(v.Up))]
		obj["upf"] = D{"xpath": up, "keep_empty_or_null": true}
		if o.JS {
			obj["upjs"] = D{"xpath": v.Up[r.Intn(len(v.Up))], "custom_func": D{"name": "javascript_with_context", "args": []interface{}{D{"const": "'jsn:' + _node"}}}}
			g.Stats["js_with_context_on_ancestor"]++
		}
	}
	decls := D{"FINAL_OUTPUT": D{"object": obj}}
	for n, b := range g.templates {
		decls[n] = b
	}
	return decls, g.Stats
}

// FlatVocab is the vocabulary of a flat kit record.
func (k *Kit) FlatVocab() *Vocab {
	cols := k.colNames()
	return &Vocab{Single: cols, Multi: []string{"*", "*[.!='']"}, Anchor: []string{".", cols[0], cols[len(cols)-1]}, Numeric: []string{"n"}}
}
