package ref

import (
	"fmt"
	"strings"
)

// HDecl is a declaration of the hierarchy: an EDI segment / segment_group or a csv2/fixedlength2 record / record_group.
type HDecl struct {
	Name     string
	Group    bool
	Target   bool
	Min, Max int // Max < 0: unbounded
	Children []*HDecl
	// how a non-group declaration recognises its unit(s)
	Kind   string // "tag" (EDI segment name / header regex ^TAG, single unit) | "rows" (any N lines) | "hf" (header ^TAG .. footer ^FTAG)
	Tag    string
	Rows   int
	Footer string
}

// HUnit is one input unit (segment / line).
type HUnit struct {
	Tag string
	ID  string
}

// HNode is an instance in the reference parse.
type HNode struct {
	Decl     *HDecl
	Units    []HUnit // own units (non-group)
	Children []*HNode
	Parent   *HNode
}

// HEvent is a delivered target instance.
type HEvent struct {
	Tree     string // canonical rendering of the target subtree
	Ancestry string // names and own unit ids of the ancestors, root first
	IDs      []string
}

// HResult is the outcome of the reference matcher.
type HResult struct {
	Events   []HEvent
	Terminal string // "EOF" | "FATAL"
	Why      string // "min-unmet:<decl>" | "unexpected-unit:<index>"
	Steps    map[string]int
}

type hmatcher struct {
	units []HUnit
	pos   int
	res   *HResult
	fatal bool
}

func firstNonGroup(d *HDecl) *HDecl {
	for d.Group {
		if len(d.Children) == 0 {
			return nil
		}
		d = d.Children[0]
	}
	return d
}

// fits tells whether the next unit(s) start an instance of d; for non-group d it returns how many units the instance's own part spans.
func (m *hmatcher) fits(d *HDecl) (bool, int) {
	ng := firstNonGroup(d)
	if ng == nil || m.pos >= len(m.units) {
		return false, 0
	}
	rest := m.units[m.pos:]
	switch ng.Kind {
	case "tag":
		return rest[0].Tag == ng.Tag, 1
	case "rows":
		return len(rest) >= ng.Rows, ng.Rows
	case "hf":
		if rest[0].Tag != ng.Tag {
			return false, 0
		}
		for i, u := range rest {
			if u.Tag == ng.Footer {
				return true, i + 1
			}
		}
		return false, 0
	}
	return false, 0
}

func (m *hmatcher) list(decls []*HDecl, parent *HNode) {
	for _, d := range decls {
		count := 0
		for !m.fatal && (d.Max < 0 || count < d.Max) {
			ok, span := m.fits(d)
			if !ok {
				m.res.Steps["does-not-fit-move-on"]++
				break
			}
			n := &HNode{Decl: d, Parent: parent}
			if !d.Group {
				n.Units = append(n.Units, m.units[m.pos:m.pos+span]...)
				m.pos += span
			} else {
				m.res.Steps["group-instance"]++
			}
			if parent != nil {
				parent.Children = append(parent.Children, n)
			}
			m.list(d.Children, n)
			if m.fatal {
				return
			}
			count++
			if count > 1 {
				m.res.Steps["repeated-instance"]++
			}
			if d.Target {
				m.res.Events = append(m.res.Events, HEvent{Tree: n.String(), Ancestry: ancestry(n), IDs: n.ids(nil)})
				// a delivered target is released from the tree before matching continues
				if parent != nil {
					parent.Children = parent.Children[:len(parent.Children)-1]
				}
			}
			if d.Max >= 0 && count >= d.Max {
				m.res.Steps["hit-max"]++
			}
		}
		if m.fatal {
			return
		}
		if count < d.Min {
			m.fatal = true
			m.res.Terminal = "FATAL"
			m.res.Why = "min-unmet:" + d.Name
			m.res.Steps["min-unmet"]++
			return
		}
		if count == 0 {
			m.res.Steps["skipped-declaration"]++
		}
	}
}

// MatchHierarchyRepeatingTop models one specific deviation (used only to recognise a recorded known finding, never as the
// oracle): once the top-level declaration list is complete, a unit that fits the first top-level declaration starts the whole
// list over again.
func MatchHierarchyRepeatingTop(decls []*HDecl, units []HUnit) *HResult {
	m := &hmatcher{units: units, res: &HResult{Steps: map[string]int{}}}
	for {
		m.list(decls, nil)
		if m.fatal {
			return m.res
		}
		if m.pos >= len(units) {
			m.res.Terminal = "EOF"
			return m.res
		}
		if ok, _ := m.fits(decls[0]); !ok || len(decls) == 0 {
			m.res.Terminal = "FATAL"
			m.res.Why = fmt.Sprintf("unexpected-unit:%d", m.pos)
			return m.res
		}
		m.res.Steps["top-level-restarted"]++
	}
}

// MatchHierarchy is the reference matcher: the documented greedy, non-backtracking semantics, stated recursively.
func MatchHierarchy(decls []*HDecl, units []HUnit) *HResult {
	m := &hmatcher{units: units, res: &HResult{Steps: map[string]int{}}}
	m.list(decls, nil)
	if m.fatal {
		return m.res
	}
	if m.pos < len(units) {
		m.res.Terminal = "FATAL"
		m.res.Why = fmt.Sprintf("unexpected-unit:%d", m.pos)
		return m.res
	}
	m.res.Terminal = "EOF"
	return m.res
}

func (n *HNode) ids(acc []string) []string {
	for _, u := range n.Units {
		acc = append(acc, u.ID)
	}
	for _, c := range n.Children {
		acc = c.ids(acc)
	}
	return acc
}

// ownIDs are the unit ids an instance exposes: every line of a tag / rows instance, first and last line of a header-footer instance.
func (n *HNode) ownIDs() string {
	us := n.Units
	if n.Decl.Kind == "hf" && len(us) > 2 {
		us = []HUnit{us[0], us[len(us)-1]}
	}
	var ids []string
	for _, u := range us {
		ids = append(ids, u.ID)
	}
	if len(ids) == 0 {
		return ""
	}
	return "#" + strings.Join(ids, ",")
}

// String renders an instance: NAME#id,id[children].
func (n *HNode) String() string {
	var sb strings.Builder
	sb.WriteString(n.Decl.Name)
	sb.WriteString(n.ownIDs())
	if len(n.Children) > 0 {
		sb.WriteString("[")
		for i, c := range n.Children {
			if i > 0 {
				sb.WriteString(" ")
			}
			sb.WriteString(c.String())
		}
		sb.WriteString("]")
	}
	return sb.String()
}

func ancestry(n *HNode) string {
	var parts []string
	for p := n.Parent; p != nil; p = p.Parent {
		parts = append([]string{p.Decl.Name + p.ownIDs()}, parts...)
	}
	return strings.Join(parts, "/")
}
