package ref

import (
	"encoding/json"
	"encoding/xml"
	"errors"
	"fmt"
	"sort"
	"strconv"
	"strings"

	"github.com/antchfx/xmlquery"
	"github.com/antchfx/xpath"
	"github.com/google/uuid"
	"github.com/jf-tech/omniparser/idr"
)

// This file is the reference evaluator for FINAL_OUTPUT: an independent, deliberately naive implementation of the
// documented transform rules (doc/transforms.md, doc/xpath.md, doc/use_of_custom_funcs.md). It shares no code with
// extensions/omniv21/transform, has no caches, parses the declarations from the schema text itself and answers every
// xpath on a mirror of the record tree through antchfx/xmlquery's navigator.

// TDecl is a transform declaration as written in the schema.
type TDecl struct {
	Const        *string          `json:"const"`
	External     *string          `json:"external"`
	XPath        *string          `json:"xpath"`
	XPathDynamic *TDecl           `json:"xpath_dynamic"`
	CustomFunc   *TFunc           `json:"custom_func"`
	Template     *string          `json:"template"`
	Object       map[string]*TDecl `json:"object"`
	Array        []*TDecl         `json:"array"`
	Type         *string          `json:"type"`
	NoTrim       bool             `json:"no_trim"`
	Keep         bool             `json:"keep_empty_or_null"`
}

// TFunc is a custom_func declaration.
type TFunc struct {
	Name        string   `json:"name"`
	Args        []*TDecl `json:"args"`
	IgnoreError bool     `json:"ignore_error"`
}

// KeptEmptyArray marks an empty array kept by keep_empty_or_null: the docs say it is emitted as [], the statement only says "kept".
type KeptEmptyArray struct{}

// MarshalJSON renders the marker (only used when a reference value is printed in a report).
func (KeptEmptyArray) MarshalJSON() ([]byte, error) { return []byte(`"<kept empty array: null or []>"`), nil }

// Evaluator evaluates FINAL_OUTPUT for one record.
type Evaluator struct {
	Decls     map[string]*TDecl
	Externals map[string]string
	ToIDR     map[*xmlquery.Node]*idr.Node // mirror node -> live node (only used by `copy`, whose rendering C08 owns)
	Stats     map[string]int
	Alt       bool // the schema is bound to omni.ExtAlt: vf_s / vf_2 / vf_i render with an ALT_ prefix
}

func (ev *Evaluator) altPrefix() string {
	if ev.Alt {
		return "ALT_"
	}
	return ""
}

// ParseDecls extracts transform_declarations from the schema text.
func ParseDecls(schema []byte) (map[string]*TDecl, error) {
	var doc struct {
		TD map[string]*TDecl `json:"transform_declarations"`
	}
	if err := json.Unmarshal(schema, &doc); err != nil {
		return nil, err
	}
	if doc.TD["FINAL_OUTPUT"] == nil {
		return nil, errors.New("no FINAL_OUTPUT")
	}
	return doc.TD, nil
}

// Mirror converts the live record tree (the whole tree the record hangs in) into an xmlquery DOM.
func Mirror(root *idr.Node) (*xmlquery.Node, map[*idr.Node]*xmlquery.Node, map[*xmlquery.Node]*idr.Node) {
	fwd := map[*idr.Node]*xmlquery.Node{}
	back := map[*xmlquery.Node]*idr.Node{}
	var conv func(n *idr.Node, parent *xmlquery.Node) *xmlquery.Node
	conv = func(n *idr.Node, parent *xmlquery.Node) *xmlquery.Node {
		var x *xmlquery.Node
		switch n.Type {
		case idr.DocumentNode:
			x = &xmlquery.Node{Type: xmlquery.DocumentNode, Data: n.Data}
		case idr.ElementNode:
			x = &xmlquery.Node{Type: xmlquery.ElementNode, Data: n.Data}
			if fs, ok := n.FormatSpecific.(idr.XMLSpecific); ok {
				x.Prefix, x.NamespaceURI = fs.NamespacePrefix, fs.NamespaceURI
			}
		case idr.TextNode:
			x = &xmlquery.Node{Type: xmlquery.TextNode, Data: n.Data}
		case idr.AttributeNode:
			if parent != nil {
				prefix := ""
				if fs, ok := n.FormatSpecific.(idr.XMLSpecific); ok {
					prefix = fs.NamespacePrefix
				}
				parent.Attr = append(parent.Attr, xml.Attr{Name: xml.Name{Space: prefix, Local: n.Data}, Value: n.InnerText()})
			}
			return nil
		}
		fwd[n], back[x] = x, n
		if parent != nil {
			x.Parent = parent
			if parent.FirstChild == nil {
				parent.FirstChild = x
			} else {
				parent.LastChild.NextSibling = x
				x.PrevSibling = parent.LastChild
			}
			parent.LastChild = x
		}
		for c := n.FirstChild; c != nil; c = c.NextSibling {
			conv(c, x)
		}
		return x
	}
	x := conv(root, nil)
	return x, fwd, back
}

// rnav is xmlquery's navigator with the documented correction for the document node's string-value (see props/c11.go).
type rnav struct{ *xmlquery.NodeNavigator }

func (n rnav) Value() string {
	if n.NodeNavigator.NodeType() == xpath.RootNode {
		return n.Current().InnerText()
	}
	return n.NodeNavigator.Value()
}
func (n rnav) String() string { return n.Value() }
func (n rnav) Copy() xpath.NodeNavigator {
	return rnav{n.NodeNavigator.Copy().(*xmlquery.NodeNavigator)}
}
func (n rnav) MoveTo(o xpath.NodeNavigator) bool {
	on, ok := o.(rnav)
	if !ok {
		return false
	}
	return n.NodeNavigator.MoveTo(on.NodeNavigator)
}

// cursor is a position in the mirror: an element/text/document node, or one attribute of an element.
type cursor struct {
	n       *xmlquery.Node
	attr    *xml.Attr
	attrNav xpath.NodeNavigator // a navigator positioned on the attribute (queries from an attribute start there: '..' is its owner)
}

func (c cursor) text() string {
	if c.attr != nil {
		return c.attr.Value
	}
	return c.n.InnerText()
}

var errEngine = errors.New("xpath engine failure")

// ErrUnspecified marks a record whose outcome the documentation does not determine (failing xpath_dynamic, failing argument under
// ignore_error): the comparison is skipped for it, never guessed.
var ErrUnspecified = errors.New("outcome not specified by the documented rules")

// exprKind classifies an xpath by the type of value it evaluates to, on a privately compiled copy and an empty document ("" when the
// engine cannot tell)
func exprKind(expr string) (kind string) {
	defer func() {
		if r := recover(); r != nil {
			kind = ""
		}
	}()
	e, err := xpath.Compile(expr)
	if err != nil {
		return ""
	}
	switch e.Evaluate(xmlquery.CreateXPathNavigator(&xmlquery.Node{Type: xmlquery.DocumentNode})).(type) {
	case bool:
		return "bool"
	case float64, string:
		return "scalar"
	}
	return ""
}

func selectNodes(cur cursor, expr string, all bool) (res []cursor, err error) {
	if expr == "." {
		return []cursor{cur}, nil
	}
	e, cerr := xpath.Compile(expr)
	if cerr != nil {
		return nil, cerr
	}
	defer func() {
		if r := recover(); r != nil {
			res, err = nil, errEngine
		}
	}()
	var start xpath.NodeNavigator = rnav{xmlquery.CreateXPathNavigator(cur.n)}
	if cur.attr != nil {
		if cur.attrNav == nil {
			return nil, nil
		}
		start = cur.attrNav.Copy()
	}
	// a boolean valued expression ("a > 5" rather than ".[a > 5]") selects no nodes: its use as an anchor is an error; a number or
	// string valued one selects nothing
	switch exprKind(expr) {
	case "bool":
		// all matches wanted (array child): an error. A single match wanted: the engine yields the context node for as long as the
		// expression is true, which is more than one match; none when it is false.
		if all {
			return nil, errors.New("not a node selecting expression")
		}
		if b, _ := e.Evaluate(start.Copy()).(bool); b {
			return nil, errors.New("more than one match (boolean expression)")
		}
		return nil, nil
	case "scalar":
		return nil, nil
	}
	it := e.Select(start)
	for it.MoveNext() {
		nav := it.Current().(rnav)
		c := cursor{n: nav.Current()}
		if nav.NodeType() == xpath.AttributeNode {
			for i := range c.n.Attr {
				if c.n.Attr[i].Name.Local == nav.LocalName() && c.n.Attr[i].Name.Space == nav.Prefix() {
					c.attr = &c.n.Attr[i]
				}
			}
			c.attrNav = nav.Copy()
		}
		res = append(res, c)
		if len(res) > 100000 {
			return nil, errors.New("runaway selection")
		}
	}
	return res, nil
}

func (d *TDecl) hasXPath() bool { return d.XPath != nil || d.XPathDynamic != nil }

func (d *TDecl) kind() string {
	switch {
	case d.Const != nil:
		return "const"
	case d.External != nil:
		return "external"
	case d.CustomFunc != nil:
		return "custom_func"
	case d.Object != nil:
		return "object"
	case d.Array != nil:
		return "array"
	case d.Template != nil:
		return "template"
	}
	return "field"
}

// resolve inlines template references: a reference behaves as its body placed at the reference site; an xpath on the
// reference replaces the body's (both present is a schema error, which NewSchema rejects).
func (ev *Evaluator) resolve(d *TDecl, depth int) (*TDecl, error) {
	for d.kind() == "template" {
		if depth > 50 {
			return nil, errors.New("template cycle")
		}
		body, ok := ev.Decls[*d.Template]
		if !ok {
			return nil, errors.New("unknown template")
		}
		cp := *body
		if d.hasXPath() {
			cp.XPath, cp.XPathDynamic = d.XPath, d.XPathDynamic
		}
		d = &cp
		depth++
		ev.Stats["template_inlined"]++
	}
	return d, nil
}

func (ev *Evaluator) xpathOf(d *TDecl, cur cursor) (string, bool, error) {
	switch {
	case d.XPath != nil && strings.TrimSpace(*d.XPath) != "":
		return *d.XPath, true, nil
	case d.XPathDynamic != nil:
		v, err := ev.eval(d.XPathDynamic, cur, false, false)
		if err != nil {
			return "", true, err
		}
		s, ok := v.(string)
		if !ok || strings.TrimSpace(s) == "" {
			return "", true, errors.New("xpath_dynamic yields no usable string")
		}
		return s, true, nil
	}
	return ".", false, nil
}

// Eval evaluates FINAL_OUTPUT with the record as cursor.
func (ev *Evaluator) Eval(record *xmlquery.Node) (interface{}, error) {
	return ev.eval(ev.Decls["FINAL_OUTPUT"], cursor{n: record}, false, true)
}

// eval returns the value of d at cur: (nil, nil) means "absent / omitted".
func (ev *Evaluator) eval(d *TDecl, cur cursor, anchored bool, isFinal bool) (interface{}, error) {
	d, err := ev.resolve(d, 0)
	if err != nil {
		return nil, err
	}
	ev.Stats["kind:"+d.kind()]++
	// anchoring
	if !anchored && !isFinal && d.hasXPath() && d.kind() != "const" && d.kind() != "external" && d.kind() != "array" {
		xp, _, err := ev.xpathOf(d, cur)
		if err != nil {
			return nil, ErrUnspecified
		}
		nodes, err := selectNodes(cur, xp, false)
		if err != nil {
			return nil, fmt.Errorf("xpath failed: %v", err)
		}
		switch len(nodes) {
		case 0:
			ev.Stats["anchor:no-match"]++
			return nil, nil
		case 1:
			cur = nodes[0]
		default:
			ev.Stats["anchor:multiple-matches"]++
			return nil, errors.New("more than one match")
		}
	}
	var v interface{}
	unspec := false
	switch d.kind() {
	case "const":
		v = *d.Const
	case "external":
		s, ok := ev.Externals[*d.External]
		if !ok {
			return nil, errors.New("missing external")
		}
		v = s
	case "field":
		v = cur.text()
	case "object":
		obj := map[string]interface{}{}
		keys := make([]string, 0, len(d.Object))
		for k := range d.Object {
			keys = append(keys, k)
		}
		sort.Strings(keys)
		for _, k := range keys {
			rc, err := ev.resolve(d.Object[k], 0)
			if err != nil {
				return nil, err
			}
			cv, err := ev.eval(rc, cur, false, false)
			if errors.Is(err, ErrUnspecified) {
				// this child's outcome is not specified, but a sibling that definitely fails still fails the record whatever this
				// child does: keep looking
				unspec = true
				continue
			}
			if err != nil {
				return nil, err
			}
			if cv != nil || rc.Keep {
				obj[k] = cv // a kept absent value is null
			}
		}
		if unspec {
			return nil, ErrUnspecified
		}
		v = obj
	case "array":
		arr := []interface{}{}
		for _, child := range d.Array {
			rc, err := ev.resolve(child, 0)
			if err != nil {
				return nil, err
			}
			xp, has, err := ev.xpathOf(rc, cur)
			if err != nil {
				unspec = true
				continue
			}
			nodes := []cursor{cur}
			if has {
				nodes, err = selectNodes(cur, xp, true)
				if err != nil {
					return nil, fmt.Errorf("xpath failed: %v", err)
				}
				ev.Stats["array:xpath-child"]++
			}
			for _, nd := range nodes {
				cv, err := ev.eval(rc, nd, true, false)
				if errors.Is(err, ErrUnspecified) {
					unspec = true
					continue
				}
				if err != nil {
					return nil, err
				}
				if cv != nil || rc.Keep {
					arr = append(arr, cv)
				}
			}
		}
		if unspec {
			return nil, ErrUnspecified
		}
		v = arr
	case "custom_func":
		fv, err := ev.call(d.CustomFunc, cur)
		if err != nil {
			if errors.Is(err, ErrUnspecified) {
				return nil, ErrUnspecified
			}
			if d.CustomFunc.IgnoreError {
				if errors.Is(err, errArg) {
					return nil, ErrUnspecified // docs and code disagree on failing arguments under ignore_error
				}
				ev.Stats["ignore_error_applied"]++
				return nil, nil
			}
			return nil, err
		}
		v = fv
	}
	return normalize(d, v)
}

var errArg = errors.New("argument evaluation failed")

func isEmpty(v interface{}) bool {
	switch t := v.(type) {
	case nil:
		return true
	case string:
		return t == ""
	case map[string]interface{}:
		return len(t) == 0
	case []interface{}:
		return len(t) == 0
	}
	return false
}

// normalize applies trim, type cast and the omit rule.
func normalize(d *TDecl, v interface{}) (interface{}, error) {
	if s, ok := v.(string); ok && !d.NoTrim {
		v = strings.TrimSpace(s)
	}
	if v != nil && d.Type != nil {
		cv, err := cast(v, *d.Type)
		if err != nil {
			return nil, err
		}
		v = cv
	}
	if isEmpty(v) {
		if !d.Keep {
			return nil, nil
		}
		if a, ok := v.([]interface{}); ok && len(a) == 0 {
			return KeptEmptyArray{}, nil
		}
		return v, nil // kept: "" stays "", {} stays {}, null stays null
	}
	return v, nil
}

func cast(v interface{}, typ string) (interface{}, error) {
	bad := errors.New("type conversion not supported")
	switch x := v.(type) {
	case string:
		switch typ {
		case "int":
			return strconv.ParseInt(x, 10, 64)
		case "float":
			return strconv.ParseFloat(x, 64)
		case "boolean":
			return strconv.ParseBool(x)
		case "string":
			return x, nil
		}
	case int64:
		switch typ {
		case "int":
			return x, nil
		case "float":
			return float64(x), nil
		case "string":
			return strconv.FormatInt(x, 10), nil
		}
	case float64:
		switch typ {
		case "int":
			return int64(x), nil
		case "float":
			return x, nil
		case "string":
			return fmt.Sprintf("%v", x), nil
		}
	case bool:
		switch typ {
		case "boolean":
			return x, nil
		case "string":
			return strconv.FormatBool(x), nil
		}
	}
	return nil, bad
}

// call evaluates the arguments from cur and applies the function (an independent re-statement of the built-ins; the vf_* family
// is the harness's own and renders exactly the arguments it received).
func (ev *Evaluator) call(f *TFunc, cur cursor) (interface{}, error) {
	ev.Stats["fn:"+f.Name]++
	var args []interface{}
	for _, a := range f.Args {
		v, err := ev.eval(a, cur, false, false)
		if err != nil {
			if errors.Is(err, ErrUnspecified) {
				return nil, ErrUnspecified
			}
			return nil, fmt.Errorf("%w: %v", errArg, err)
		}
		if _, marker := v.(KeptEmptyArray); marker {
			v = []interface{}(nil)
		}
		args = append(args, v)
	}
	str := func(i int) (string, error) {
		if i >= len(args) {
			return "", errors.New("too few arguments")
		}
		if args[i] == nil {
			ev.Stats["absent_arg_zero_value"]++
			return "", nil
		}
		s, ok := args[i].(string)
		if !ok {
			return "", errors.New("argument is not a string")
		}
		return s, nil
	}
	strs := func() ([]string, error) {
		var out []string
		for i := range args {
			s, err := str(i)
			if err != nil {
				return nil, err
			}
			out = append(out, s)
		}
		return out, nil
	}
	exactly := func(n int) error {
		if len(args) != n {
			return errors.New("wrong number of arguments")
		}
		return nil
	}
	q := strconv.Quote
	switch f.Name {
	case "concat":
		ss, err := strs()
		if err != nil {
			return nil, err
		}
		return strings.Join(ss, ""), nil
	case "coalesce":
		ss, err := strs()
		if err != nil {
			return nil, err
		}
		for _, s := range ss {
			if s != "" {
				return s, nil
			}
		}
		return "", nil
	case "lower", "upper", "uuidv3", "vf_fail", "vf_int", "vf_float", "vf_bool", "vf_yield":
		if err := exactly(1); err != nil {
			return nil, err
		}
		s, err := str(0)
		if err != nil {
			return nil, err
		}
		switch f.Name {
		case "lower":
			return strings.ToLower(s), nil
		case "upper":
			return strings.ToUpper(s), nil
		case "uuidv3":
			return uuid.NewMD5(uuid.Nil, []byte(s)).String(), nil
		case "vf_fail":
			if strings.Contains(s, "FAIL!") {
				return nil, errors.New("vf_fail refused")
			}
			return "ok:" + s, nil
		case "vf_int":
			return int64(len(s)), nil
		case "vf_float":
			return float64(len(s)) + 0.5, nil
		case "vf_bool":
			return len(s)%2 == 0, nil
		default:
			return s, nil
		}
	case "vf_s":
		ss, err := strs()
		if err != nil {
			return nil, err
		}
		qs := make([]string, len(ss))
		for i, s := range ss {
			qs[i] = q(s)
		}
		return ev.altPrefix() + "S(" + strings.Join(qs, ",") + ")", nil
	case "vf_2":
		if err := exactly(2); err != nil {
			return nil, err
		}
		a, e1 := str(0)
		b, e2 := str(1)
		if e1 != nil || e2 != nil {
			return nil, errors.New("bad argument")
		}
		return ev.altPrefix() + "2(" + q(a) + "," + q(b) + ")", nil
	case "vf_i":
		if err := exactly(2); err != nil {
			return nil, err
		}
		var n int64
		if args[0] != nil {
			x, ok := args[0].(int64)
			if !ok {
				return nil, errors.New("argument is not an int")
			}
			n = x
		}
		s, err := str(1)
		if err != nil {
			return nil, err
		}
		return ev.altPrefix() + "I(" + strconv.FormatInt(n, 10) + "," + q(s) + ")", nil
	case "vf_f":
		if err := exactly(1); err != nil {
			return nil, err
		}
		var x float64
		if args[0] != nil {
			y, ok := args[0].(float64)
			if !ok {
				return nil, errors.New("argument is not a float")
			}
			x = y
		}
		return "F(" + strconv.FormatFloat(x, 'g', -1, 64) + ")", nil
	case "vf_b":
		if err := exactly(1); err != nil {
			return nil, err
		}
		var b bool
		if args[0] != nil {
			y, ok := args[0].(bool)
			if !ok {
				return nil, errors.New("argument is not a bool")
			}
			b = y
		}
		return "B(" + strconv.FormatBool(b) + ")", nil
	case "vf_n":
		if err := exactly(1); err != nil {
			return nil, err
		}
		s, err := str(0)
		if err != nil {
			return nil, err
		}
		name := cur.n.Data
		if cur.attr != nil {
			name = cur.attr.Name.Local
		}
		return "N(" + q(name) + "," + q(cur.text()) + "," + q(s) + ")", nil
	case "copy":
		if err := exactly(0); err != nil {
			return nil, err
		}
		if cur.attr != nil {
			return cur.attr.Value, nil
		}
		live := ev.ToIDR[cur.n]
		if live == nil {
			return nil, errors.New("no live node")
		}
		// the rendering of a node as a JSON-friendly value is C08's subject; here it is taken as given, decoded through JSON so that
		// only its value matters
		b, _ := json.Marshal(idr.J2NodeToInterface(live, true))
		var v interface{}
		dec := json.NewDecoder(strings.NewReader(string(b)))
		dec.UseNumber()
		dec.Decode(&v)
		return jsonNumbers(v), nil
	}
	return nil, errors.New("function not modelled: " + f.Name)
}

// jsonNumbers turns json.Number into float64 (what a JSON value means).
func jsonNumbers(v interface{}) interface{} {
	switch t := v.(type) {
	case json.Number:
		f, _ := t.Float64()
		return f
	case map[string]interface{}:
		for k, x := range t {
			t[k] = jsonNumbers(x)
		}
	case []interface{}:
		for i, x := range t {
			t[i] = jsonNumbers(x)
		}
	}
	return v
}

// EqualJSON compares a reference value with the decoded JSON the library emitted.
func EqualJSON(ref, got interface{}) bool {
	switch r := ref.(type) {
	case KeptEmptyArray:
		if got == nil {
			return true
		}
		a, ok := got.([]interface{})
		return ok && len(a) == 0
	case nil:
		return got == nil
	case string:
		g, ok := got.(string)
		return ok && g == r
	case bool:
		g, ok := got.(bool)
		return ok && g == r
	case int64:
		g, ok := got.(float64)
		return ok && g == float64(r)
	case float64:
		g, ok := got.(float64)
		return ok && (g == r || (g != g && r != r))
	case map[string]interface{}:
		g, ok := got.(map[string]interface{})
		if !ok || len(g) != len(r) {
			return false
		}
		for k, v := range r {
			gv, ok := g[k]
			if !ok || !EqualJSON(v, gv) {
				return false
			}
		}
		return true
	case []interface{}:
		g, ok := got.([]interface{})
		if !ok || len(g) != len(r) {
			return false
		}
		for i := range r {
			if !EqualJSON(r[i], g[i]) {
				return false
			}
		}
		return true
	}
	return false
}
