// Package ref holds the reference models: independent, deliberately naive re-statements of documented behaviour.
package ref

import (
	"bytes"
	"encoding/xml"
	"fmt"
	"io"
	"strconv"
	"strings"
)

// MNode is a node of the mirror DOM built directly from the standard decoder's token stream (never by idr).
type MNode struct {
	Kind     string // "doc" | "elem" | "attr" | "text"
	Local    string
	Space    string // namespace URI as the decoder's Token() reports it
	Prefix   string // lexical prefix as the decoder's RawToken() reports it
	Value    string // attr value / text
	Attrs    []*MNode
	Children []*MNode // elements and text, in order
	Parent   *MNode
	Ord      int // document-order ordinal
}

// BuildXMLMirror decodes the document twice (Token for URIs, RawToken for lexical prefixes) and builds the mirror.
func BuildXMLMirror(doc []byte) (*MNode, error) {
	d1 := xml.NewDecoder(bytes.NewReader(doc))
	d2 := xml.NewDecoder(bytes.NewReader(doc))
	root := &MNode{Kind: "doc"}
	cur := root
	ord := 0
	for {
		t1, err := d1.Token()
		if err == io.EOF {
			break
		}
		if err != nil {
			return nil, err
		}
		t2, err2 := d2.RawToken()
		if err2 != nil {
			return nil, fmt.Errorf("raw token stream diverged: %v", err2)
		}
		switch tok := t1.(type) {
		case xml.StartElement:
			raw, ok := t2.(xml.StartElement)
			if !ok || len(raw.Attr) != len(tok.Attr) {
				return nil, fmt.Errorf("raw token stream diverged at <%s>", tok.Name.Local)
			}
			ord++
			e := &MNode{Kind: "elem", Local: tok.Name.Local, Space: tok.Name.Space, Prefix: raw.Name.Space, Parent: cur, Ord: ord}
			for i, a := range tok.Attr {
				ord++
				e.Attrs = append(e.Attrs, &MNode{Kind: "attr", Local: a.Name.Local, Space: a.Name.Space, Prefix: raw.Attr[i].Name.Space, Value: a.Value, Parent: e, Ord: ord})
			}
			cur.Children = append(cur.Children, e)
			cur = e
		case xml.EndElement:
			cur = cur.Parent
		case xml.CharData:
			ord++
			cur.Children = append(cur.Children, &MNode{Kind: "text", Value: string(tok), Parent: cur, Ord: ord})
		}
	}
	return root, nil
}

// String renders the mirror canonically (same shape as CanonIDR in the xml checks).
func (m *MNode) String() string {
	var sb strings.Builder
	m.write(&sb)
	return sb.String()
}

func (m *MNode) write(sb *strings.Builder) {
	switch m.Kind {
	case "doc":
		sb.WriteString("DOC")
	case "elem":
		sb.WriteString("E(" + strconv.Quote(m.Prefix) + "," + strconv.Quote(m.Space) + "," + strconv.Quote(m.Local) + ")")
	case "attr":
		sb.WriteString("A(" + strconv.Quote(m.Prefix) + "," + strconv.Quote(m.Space) + "," + strconv.Quote(m.Local) + "=" + strconv.Quote(m.Value) + ")")
		return
	case "text":
		sb.WriteString("T(" + strconv.Quote(m.Value) + ")")
		return
	}
	sb.WriteString("[")
	for _, a := range m.Attrs {
		a.write(sb)
	}
	for _, c := range m.Children {
		c.write(sb)
	}
	sb.WriteString("]")
}

// Text returns the concatenated descendant text (attributes excluded): the XPath string-value.
func (m *MNode) Text() string {
	if m.Kind == "text" || m.Kind == "attr" {
		return m.Value
	}
	var sb strings.Builder
	var walk func(*MNode)
	walk = func(n *MNode) {
		for _, c := range n.Children {
			if c.Kind == "text" {
				sb.WriteString(c.Value)
			} else {
				walk(c)
			}
		}
	}
	walk(m)
	return sb.String()
}

// Attr returns the value of the un-namespaced attribute, if present.
func (m *MNode) Attr(local string) (string, bool) {
	for _, a := range m.Attrs {
		if a.Local == local && a.Space == "" {
			return a.Value, true
		}
	}
	return "", false
}
