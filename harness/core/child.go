package core

import (
	"bufio"
	"encoding/json"
	"fmt"
	"os"
	"runtime"
	"sort"
	"strconv"
	"strings"
	"sync/atomic"
	"time"
)

// Child protocol (JSON lines written unbuffered to the result file):
//   {"k":"S","i":idx}                      before a case starts (written first, so a dying child is attributable)
//   {"k":"K","upto":n,"c":{..},"d":[..],"s":[..],"v":[..],"q":[..]}   checkpoint: everything since the last checkpoint, cases < n done
//   {"k":"H","i":idx}                      watchdog fired during case idx
//   {"k":"E"}                              clean end

type ckpt struct {
	K    string            `json:"k"`
	I    int               `json:"i,omitempty"`
	Upto int               `json:"upto,omitempty"`
	C    map[string]int64  `json:"c,omitempty"`
	D    []string          `json:"d,omitempty"`
	S    []json.RawMessage `json:"s,omitempty"`
	V    []Violation       `json:"v,omitempty"`
	Q    []string          `json:"q,omitempty"`
	B    []string          `json:"b,omitempty"` // harness-broken notes
}

// runCase executes one case with panic containment. A panic escaping Prop.Run that has a library frame is a
// violation of whatever the property is checking (the call did not return what the oracle expects); a panic
// without any library frame is a harness bug and marks the run broken.
func runCase(p *Prop, t Tier, seed uint64, idx int, verbose bool) (c *Ctx, broken string) {
	c = newCtx(p, t, seed, idx)
	c.Verbose = verbose
	pi := Guard(func() { p.Run(c) })
	if pi != nil {
		if pi.InLib {
			c.Violate("panic:"+pi.Site+":"+PanicClass(pi.Value),
				"panic escaped to the caller: "+Trunc(pi.Value, 300),
				map[string]interface{}{"panic": pi.Value, "stack": Trunc(pi.Stack, 4000)})
		} else {
			broken = fmt.Sprintf("harness panic in case %d: %s\n%s", idx, pi.Value, Trunc(pi.Stack, 3000))
		}
	}
	c.counters["cases"]++
	return c, broken
}

// ChildMain runs cases [lo,hi) minus skip, writing the protocol to outPath.
func ChildMain(p *Prop, t Tier, seed uint64, lo, hi int, skip map[int]bool, outPath string) {
	f, err := os.OpenFile(outPath, os.O_CREATE|os.O_WRONLY|os.O_APPEND, 0o644)
	if err != nil {
		fatalf("child: %v", err)
	}
	write := func(v interface{}) {
		b, _ := json.Marshal(v)
		b = append(b, '\n')
		f.Write(b)
	}
	timeout := 120 * time.Second
	if p.CaseTimeout != nil {
		if d := p.CaseTimeout(t); d > 0 {
			timeout = d
		}
	}
	if s := os.Getenv("VERIF_CASE_TIMEOUT_S"); s != "" {
		if n, err := strconv.Atoi(s); err == nil && n > 0 {
			timeout = time.Duration(n) * time.Second
		}
	}
	var curIdx int64 = -1
	var started int64 // unix nano of the case start
	memLimit := int64(6) << 30 // resident set; a case that needs more than this is treated like a hang
	if s := os.Getenv("VERIF_CHILD_MEM_GB"); s != "" {
		if n, err := strconv.Atoi(s); err == nil && n > 0 {
			memLimit = int64(n) << 30
		}
	}
	go func() {
		for {
			time.Sleep(200 * time.Millisecond)
			if rss := residentBytes(); rss > memLimit {
				write(ckpt{K: "M", I: int(atomic.LoadInt64(&curIdx))})
				fmt.Fprintf(os.Stderr, "memory watchdog: resident set %d MiB exceeds the limit of %d MiB in case %d\n", rss>>20, memLimit>>20, atomic.LoadInt64(&curIdx))
				os.Exit(4)
			}
			st := atomic.LoadInt64(&started)
			if st == 0 {
				continue
			}
			if time.Since(time.Unix(0, st)) > timeout {
				write(ckpt{K: "H", I: int(atomic.LoadInt64(&curIdx))})
				buf := make([]byte, 1<<20)
				n := runtime.Stack(buf, true)
				os.Stderr.Write(buf[:n])
				os.Exit(3)
			}
		}
	}()

	agg := newAggLite()
	flush := func(upto int) {
		write(agg.toCkpt(upto))
		agg = newAggLite()
	}
	every := 64
	n := 0
	for idx := lo; idx < hi; idx++ {
		if skip[idx] {
			continue
		}
		atomic.StoreInt64(&curIdx, int64(idx))
		write(ckpt{K: "S", I: idx})
		atomic.StoreInt64(&started, time.Now().UnixNano())
		c, broken := runCase(p, t, seed, idx, false)
		atomic.StoreInt64(&started, 0)
		agg.add(c, broken)
		n++
		if n%every == 0 {
			flush(idx + 1)
		}
	}
	flush(hi)
	write(ckpt{K: "E"})
	f.Close()
}

// residentBytes reads the resident set size from /proc/self/statm (cheap; no stop-the-world).
func residentBytes() int64 {
	b, err := os.ReadFile("/proc/self/statm")
	if err != nil {
		return 0
	}
	f := strings.Fields(string(b))
	if len(f) < 2 {
		return 0
	}
	pages, _ := strconv.ParseInt(f[1], 10, 64)
	return pages * int64(os.Getpagesize())
}

type aggLite struct {
	c map[string]int64
	d map[uint64]struct{}
	s []json.RawMessage
	v []Violation
	q []string
	b []string
}

func newAggLite() *aggLite {
	return &aggLite{c: map[string]int64{}, d: map[uint64]struct{}{}}
}

func (a *aggLite) add(c *Ctx, broken string) {
	for k, v := range c.counters {
		if strings.HasPrefix(k, "max:") {
			if v > a.c[k] {
				a.c[k] = v
			}
		} else {
			a.c[k] += v
		}
	}
	for d := range c.digests {
		a.d[d] = struct{}{}
	}
	if len(a.s) < 3 {
		for _, s := range c.samples {
			b, err := json.Marshal(map[string]interface{}{"case": c.Idx, "sample": s})
			if err == nil && len(a.s) < 3 {
				a.s = append(a.s, b)
			}
		}
	}
	a.v = append(a.v, c.viols...)
	for _, q := range c.inconcl {
		a.q = append(a.q, fmt.Sprintf("case %d: %s", c.Idx, q))
	}
	if broken != "" {
		a.b = append(a.b, broken)
	}
}

func (a *aggLite) toCkpt(upto int) ckpt {
	ds := make([]string, 0, len(a.d))
	for d := range a.d {
		ds = append(ds, strconv.FormatUint(d, 36))
	}
	sort.Strings(ds)
	return ckpt{K: "K", Upto: upto, C: a.c, D: ds, S: a.s, V: a.v, Q: a.q, B: a.b}
}

// parseChildFile reads a protocol file.
type childOutcome struct {
	ckpts     []ckpt
	lastUpto  int  // cases < lastUpto are accounted for (or -1)
	lastStart int  // last S idx seen (or -1)
	hang      bool // H line present
	mem       bool // M line present: memory watchdog fired
	ended     bool // E line present
}

func parseChildFile(path string, lo int) (*childOutcome, error) {
	f, err := os.Open(path)
	if err != nil {
		return nil, err
	}
	defer f.Close()
	o := &childOutcome{lastUpto: lo, lastStart: -1}
	sc := bufio.NewScanner(f)
	sc.Buffer(make([]byte, 1<<20), 1<<30)
	for sc.Scan() {
		var k ckpt
		if err := json.Unmarshal(sc.Bytes(), &k); err != nil {
			continue // torn last line of a dying child
		}
		switch k.K {
		case "S":
			o.lastStart = k.I
		case "K":
			o.ckpts = append(o.ckpts, k)
			if k.Upto > o.lastUpto {
				o.lastUpto = k.Upto
			}
		case "H":
			o.hang = true
			o.lastStart = k.I
		case "M":
			o.hang = true
			o.mem = true
			o.lastStart = k.I
		case "E":
			o.ended = true
		}
	}
	return o, nil
}
