package core

import (
	"encoding/json"
	"fmt"
	"hash/fnv"
	"os"
	"runtime/debug"
	"sort"
	"strings"
	"time"
)

// Tier is "quick" or "thorough".
type Tier string

const (
	Quick    Tier = "quick"
	Thorough Tier = "thorough"
)

// Violation is one witnessed refutation of a property.
type Violation struct {
	Sig    string                 `json:"sig"`  // specific signature: known-finding matching and de-duplication
	What   string                 `json:"what"` // one-line human description
	Idx    int                    `json:"idx"`
	Detail map[string]interface{} `json:"detail,omitempty"`
}

// Prop describes one property check.
type Prop struct {
	ID          string
	Level       string // evidence level: exploration | fault_enumeration
	Rule        string // how cases are generated and what makes one distinct and non-trivial
	Assumptions []string
	Race        bool                         // children are built with -race and race logs are parsed
	Cases       func(t Tier) int             // number of cases (pure function of tier)
	Run         func(c *Ctx)                 // executes case c.Idx
	Min         func(t Tier) map[string]int64 // minimum aggregated counters; below => inconclusive
	Batch       func(t Tier) int             // cases per child process (0: automatic)
	CaseTimeout func(t Tier) time.Duration   // watchdog per case inside the child (0: 120s)
	Parallel    int                          // max concurrent children (0: 16)
	Exhaustive  func(t Tier) bool
	HangIsViolation bool                     // C03/C16: a confirmed hang is a violation, otherwise inconclusive
	Finish      func(a *Agg)                 // parent-side post-aggregation hook
}

var registry = map[string]*Prop{}

// Register adds a property check.
func Register(p *Prop) {
	if _, dup := registry[p.ID]; dup {
		panic("duplicate property " + p.ID)
	}
	registry[p.ID] = p
}

// Lookup returns the property check or nil.
func Lookup(id string) *Prop { return registry[id] }

// IDs lists registered property ids.
func IDs() []string {
	var ids []string
	for id := range registry {
		ids = append(ids, id)
	}
	sort.Strings(ids)
	return ids
}

// Ctx is handed to Prop.Run for one case.
type Ctx struct {
	Prop    *Prop
	Tier    Tier
	Seed    uint64
	Idx     int
	R       *Rand
	Verbose bool // replay mode: properties may print details

	counters map[string]int64
	digests  map[uint64]struct{}
	samples  []interface{}
	viols    []Violation
	inconcl  []string
}

func newCtx(p *Prop, t Tier, seed uint64, idx int) *Ctx {
	return &Ctx{Prop: p, Tier: t, Seed: seed, Idx: idx, R: CaseRand(seed, p.ID, idx),
		counters: map[string]int64{}, digests: map[uint64]struct{}{}}
}

// Count adds n to an observed-event counter.
func (c *Ctx) Count(name string, n int64) { c.counters[name] += n }

// Inc adds one to a counter.
func (c *Ctx) Inc(name string) { c.counters[name]++ }

// Max keeps the maximum seen for a gauge-like counter (stored under "max:"+name).
func (c *Ctx) Max(name string, v int64) {
	k := "max:" + name
	if v > c.counters[k] {
		c.counters[k] = v
	}
}

// Distinct records the digest of a non-trivial case/execution; the number of distinct digests over the
// whole run is the evidence's distinct_nontrivial.
func (c *Ctx) Distinct(parts ...string) {
	h := fnv.New64a()
	for _, p := range parts {
		h.Write([]byte(p))
		h.Write([]byte{0})
	}
	c.digests[h.Sum64()] = struct{}{}
}

// Sample offers a written-out case for the evidence file (only the first few are kept).
func (c *Ctx) Sample(v interface{}) {
	if len(c.samples) < 2 {
		c.samples = append(c.samples, v)
	}
}

// Violate records a violation.
func (c *Ctx) Violate(sig, what string, detail map[string]interface{}) {
	if c.Verbose {
		b, _ := json.MarshalIndent(detail, "  ", "  ")
		fmt.Printf("  violation sig=%s\n  what=%s\n  detail=%s\n", sig, what, Trunc(string(b), 6000))
	}
	// keep at most a handful per case; the first ones are the interesting ones.
	if len(c.viols) < 8 {
		c.viols = append(c.viols, Violation{Sig: sig, What: what, Idx: c.Idx, Detail: detail})
	}
	c.counters["violations_raw"]++
}

// Inconclusive records that this case could not decide (never folded into held/violated).
func (c *Ctx) Inconclusive(why string) {
	if len(c.inconcl) < 4 {
		c.inconcl = append(c.inconcl, why)
	}
}

// Logf prints only in replay mode.
func (c *Ctx) Logf(format string, args ...interface{}) {
	if c.Verbose {
		fmt.Printf(format+"\n", args...)
	}
}

// Trunc shortens long strings for reports.
func Trunc(s string, n int) string {
	if len(s) <= n {
		return s
	}
	return s[:n] + fmt.Sprintf("...(%d more bytes)", len(s)-n)
}

// PanicInfo describes a recovered panic.
type PanicInfo struct {
	Value string
	Stack string
	Site  string // first frame in omniparser or one of its dependencies ("" if none)
	InLib bool   // true if a library frame lies between the panic and the harness
}

// libPrefixes are the module paths considered "the code under test and what it drives".
var libPrefixes = []string{
	"github.com/jf-tech/omniparser", "github.com/jf-tech/go-corelib", "github.com/antchfx/",
	"github.com/dop251/goja", "github.com/xeipuuv/", "golang.org/x/text", "golang.org/x/net",
	"github.com/google/uuid", "encoding/", "regexp", "reflect.", "strconv.", "bufio.", "unicode/",
}

// ClassifyStack extracts the panic site from a debug.Stack() dump.
func ClassifyStack(stack string) (site string, inLib bool) {
	lines := strings.Split(stack, "\n")
	firstLib := ""
	firstOmni := ""
	// frames above the innermost "panic(" line belong to the recovering deferred function.
	start := 0
	for i, l := range lines {
		if strings.HasPrefix(l, "panic(") {
			start = i + 1
			break
		}
	}
	for _, l := range lines[start:] {
		if strings.HasPrefix(l, "\t") || l == "" || strings.HasPrefix(l, "goroutine ") {
			continue
		}
		fn := l
		if i := strings.LastIndex(fn, "("); i > 0 {
			fn = fn[:i]
		}
		if strings.HasPrefix(fn, "panic") || strings.HasPrefix(fn, "runtime.") || strings.HasPrefix(fn, "runtime/debug.") {
			continue
		}
		if strings.HasPrefix(fn, "verif/harness/") || strings.HasPrefix(fn, "main.") {
			// reached the harness; whatever was seen before decides
			break
		}
		for _, p := range libPrefixes {
			if strings.HasPrefix(fn, p) {
				if firstLib == "" {
					firstLib = fn
				}
				if firstOmni == "" && strings.HasPrefix(fn, "github.com/jf-tech/omniparser") {
					firstOmni = fn
				}
				break
			}
		}
	}
	if firstOmni != "" {
		return strings.TrimPrefix(firstOmni, "github.com/jf-tech/omniparser/"), true
	}
	if firstLib != "" {
		return firstLib, true
	}
	return "", false
}

// Guard runs f and converts a panic into PanicInfo (nil if f returned normally).
func Guard(f func()) (pi *PanicInfo) {
	defer func() {
		if r := recover(); r != nil {
			st := string(debug.Stack())
			site, inLib := ClassifyStack(st)
			pi = &PanicInfo{Value: fmt.Sprint(r), Stack: st, Site: site, InLib: inLib}
		}
	}()
	f()
	return nil
}

// PanicClass reduces a panic value to a stable class (strips addresses, numbers and quoted data).
func PanicClass(v string) string {
	switch {
	case strings.Contains(v, "nil pointer dereference"):
		return "nil-deref"
	case strings.Contains(v, "index out of range"):
		return "index-out-of-range"
	case strings.Contains(v, "slice bounds out of range"):
		return "slice-bounds"
	case strings.Contains(v, "interface conversion"):
		return "interface-conversion"
	case strings.HasPrefix(v, "reflect:"):
		w := strings.Fields(v)
		if len(w) > 3 {
			w = w[:3]
		}
		return strings.Join(w, "-")
	}
	w := strings.FieldsFunc(v, func(r rune) bool { return !(r >= 'a' && r <= 'z' || r >= 'A' && r <= 'Z') })
	if len(w) > 4 {
		w = w[:4]
	}
	return strings.Join(w, "-")
}

func fatalf(format string, args ...interface{}) {
	fmt.Fprintf(os.Stderr, format+"\n", args...)
	os.Exit(2)
}

// ScratchCtx creates a private recording context for a goroutine spawned by a case (the monitor's own state is never
// shared between goroutines); merge it back with MergeScratch after the goroutine has finished.
func ScratchCtx(parent *Ctx) *Ctx {
	return &Ctx{Prop: parent.Prop, Tier: parent.Tier, Seed: parent.Seed, Idx: parent.Idx, Verbose: false,
		counters: map[string]int64{}, digests: map[uint64]struct{}{}}
}

// MergeScratch folds a scratch context into the case context.
func MergeScratch(dst, src *Ctx) {
	if src == nil {
		return
	}
	for k, v := range src.counters {
		if strings.HasPrefix(k, "max:") {
			if v > dst.counters[k] {
				dst.counters[k] = v
			}
		} else {
			dst.counters[k] += v
		}
	}
	for d := range src.digests {
		dst.digests[d] = struct{}{}
	}
	for _, v := range src.viols {
		if len(dst.viols) < 8 {
			dst.viols = append(dst.viols, v)
		}
	}
	dst.inconcl = append(dst.inconcl, src.inconcl...)
}

// CounterOf reads a counter of a context.
func CounterOf(c *Ctx, name string) int64 {
	if c == nil {
		return 0
	}
	return c.counters[name]
}
