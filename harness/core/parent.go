package core

import (
	"bytes"
	"crypto/sha256"
	"encoding/hex"
	"encoding/json"
	"fmt"
	"os"
	"os/exec"
	"path/filepath"
	"regexp"
	"sort"
	"strconv"
	"strings"
	"sync"
	"time"
)

// Agg is the parent-side aggregate over all children.
type Agg struct {
	Prop     *Prop
	Tier     Tier
	Seed     uint64
	Counters map[string]int64
	digests  map[string]struct{}
	Samples  []json.RawMessage
	Viols    []Violation
	Inconcl  []string
	Broken   []string
	Extra    map[string]interface{} // extra coverage keys set by Finish
	mu       sync.Mutex
}

// AddViolation lets a Finish hook add a parent-side violation.
func (a *Agg) AddViolation(v Violation) { a.Viols = append(a.Viols, v) }

// AddInconclusive lets a Finish hook mark the run inconclusive.
func (a *Agg) AddInconclusive(s string) { a.Inconcl = append(a.Inconcl, s) }

func (a *Agg) merge(k ckpt) {
	a.mu.Lock()
	defer a.mu.Unlock()
	for n, v := range k.C {
		if strings.HasPrefix(n, "max:") {
			if v > a.Counters[n] {
				a.Counters[n] = v
			}
		} else {
			a.Counters[n] += v
		}
	}
	for _, d := range k.D {
		a.digests[d] = struct{}{}
	}
	for _, s := range k.S {
		if len(a.Samples) < 64 {
			a.Samples = append(a.Samples, s)
		}
	}
	a.Viols = append(a.Viols, k.V...)
	a.Inconcl = append(a.Inconcl, k.Q...)
	a.Broken = append(a.Broken, k.B...)
}

// Dirs used by the framework.
type Env struct {
	VerifDir string // /verif
	OutDir   string // where evidence/ and replays/ are written (VerifDir unless VERIF_OUT_DIR is set: runs against scratch copies)
	BuildDir string // <OutDir>/.build
	Self     string // path of the running binary (children re-exec it)
}

func selfEnv() Env {
	self, _ := os.Executable()
	vd := os.Getenv("VERIF_DIR")
	if vd == "" {
		vd = "/verif"
	}
	od := os.Getenv("VERIF_OUT_DIR")
	if od == "" {
		od = vd
	}
	return Env{VerifDir: vd, OutDir: od, BuildDir: filepath.Join(od, ".build"), Self: self}
}

type crash struct {
	idx    int
	hang   bool
	mem    bool
	stderr string
}

// runRange drives children over [lo,hi) until every case is accounted for, returning crashes.
func runRange(env Env, p *Prop, t Tier, seed uint64, lo, hi int, agg *Agg, tag string, timeoutMul int) []crash {
	var crashes []crash
	skip := []int{}
	cur := lo
	attempt := 0
	for cur < hi {
		attempt++
		out := filepath.Join(env.BuildDir, "run", p.ID, fmt.Sprintf("%s-%d-%d.a%d.jsonl", tag, lo, hi, attempt))
		os.MkdirAll(filepath.Dir(out), 0o755)
		os.Remove(out)
		errPath := out + ".stderr"
		skipStrs := make([]string, len(skip))
		for i, s := range skip {
			skipStrs[i] = strconv.Itoa(s)
		}
		args := []string{"child", p.ID, string(t), strconv.FormatUint(seed, 10), strconv.Itoa(cur), strconv.Itoa(hi),
			strings.Join(skipStrs, ","), out}
		cmd := exec.Command(env.Self, args...)
		ef, _ := os.Create(errPath)
		cmd.Stderr = ef
		cmd.Stdout = ef
		cmd.Env = append(os.Environ(), "VERIF_CHILD=1")
		if p.Race {
			rd := filepath.Join(env.BuildDir, "race", p.ID)
			os.MkdirAll(rd, 0o755)
			cmd.Env = append(cmd.Env, "GORACE=halt_on_error=0 exitcode=0 history_size=4 log_path="+filepath.Join(rd, "r"))
		}
		if timeoutMul > 1 {
			base := 120
			if p.CaseTimeout != nil {
				if d := p.CaseTimeout(t); d > 0 {
					base = int(d / time.Second)
				}
			}
			cmd.Env = append(cmd.Env, "VERIF_CASE_TIMEOUT_S="+strconv.Itoa(base*timeoutMul))
		}
		runErr := cmd.Run()
		ef.Close()
		o, err := parseChildFile(out, cur)
		if err != nil {
			agg.mu.Lock()
			agg.Broken = append(agg.Broken, fmt.Sprintf("child produced no result file (%v): %v", runErr, err))
			agg.mu.Unlock()
			return crashes
		}
		for _, k := range o.ckpts {
			agg.merge(k)
		}
		if o.ended && runErr == nil {
			os.Remove(out)
			os.Remove(errPath)
			return crashes
		}
		// the child died or hung
		se, _ := os.ReadFile(errPath)
		if o.lastStart < 0 || o.lastStart < o.lastUpto && !o.hang {
			agg.mu.Lock()
			agg.Broken = append(agg.Broken, fmt.Sprintf("child died outside any case (%v): %s", runErr, Trunc(string(se), 2000)))
			agg.mu.Unlock()
			return crashes
		}
		crashes = append(crashes, crash{idx: o.lastStart, hang: o.hang, mem: o.mem, stderr: tailString(string(se), 12000)})
		skip = append(skip, o.lastStart)
		cur = o.lastUpto
		if attempt > 200 {
			agg.mu.Lock()
			agg.Broken = append(agg.Broken, "more than 200 child deaths in one batch")
			agg.mu.Unlock()
			return crashes
		}
	}
	return crashes
}

func tailString(s string, n int) string {
	if len(s) <= n {
		return s
	}
	return s[len(s)-n:]
}

var fatalRe = regexp.MustCompile(`(?m)^(fatal error: .*|panic: .*|runtime: goroutine stack exceeds.*)$`)

func crashSig(stderr string) (sig, msg string) {
	m := fatalRe.FindString(stderr)
	if m == "" {
		m = "child died"
	}
	site, _ := ClassifyStack(stderr)
	cls := m
	switch {
	case strings.Contains(stderr, "stack exceeds") || strings.Contains(m, "stack overflow"):
		cls = "stack-overflow"
	case strings.Contains(m, "concurrent map"):
		cls = "concurrent-map"
	case strings.Contains(m, "out of memory"):
		cls = "oom"
	default:
		cls = PanicClass(strings.TrimPrefix(strings.TrimPrefix(m, "fatal error: "), "panic: "))
	}
	return "crash:" + site + ":" + cls, m
}

// Main is the entry point of `vrun run <id> <tier>`.
func Main(id string, tier Tier) int {
	p := Lookup(id)
	if p == nil {
		fmt.Fprintf(os.Stderr, "unknown property %s (have %v)\n", id, IDs())
		return 2
	}
	env := selfEnv()
	seed := uint64(1)
	if s := os.Getenv("VERIF_SEED"); s != "" {
		if n, err := strconv.ParseInt(s, 10, 64); err == nil {
			seed = uint64(n)
		}
	}
	start := time.Now()
	total := p.Cases(tier)
	agg := &Agg{Prop: p, Tier: tier, Seed: seed, Counters: map[string]int64{}, digests: map[string]struct{}{}, Extra: map[string]interface{}{}}

	os.RemoveAll(filepath.Join(env.BuildDir, "run", p.ID))
	os.RemoveAll(filepath.Join(env.OutDir, "replays", p.ID))
	os.RemoveAll(filepath.Join(env.BuildDir, "race", p.ID))

	par := p.Parallel
	if par <= 0 {
		par = 16
	}
	batch := 0
	if p.Batch != nil {
		batch = p.Batch(tier)
	}
	if batch <= 0 {
		batch = (total + par*4 - 1) / (par * 4)
		if batch < 1 {
			batch = 1
		}
	}
	type job struct{ lo, hi int }
	jobs := make(chan job, 1024)
	var wg sync.WaitGroup
	var cmu sync.Mutex
	var crashes []crash
	for w := 0; w < par; w++ {
		wg.Add(1)
		go func() {
			defer wg.Done()
			for j := range jobs {
				cs := runRange(env, p, tier, seed, j.lo, j.hi, agg, "b", 1)
				if len(cs) > 0 {
					cmu.Lock()
					crashes = append(crashes, cs...)
					cmu.Unlock()
				}
			}
		}()
	}
	for lo := 0; lo < total; lo += batch {
		hi := lo + batch
		if hi > total {
			hi = total
		}
		jobs <- job{lo, hi}
	}
	close(jobs)
	wg.Wait()

	// Confirm crashes/hangs by re-running the single case alone in a fresh child with a much larger budget.
	sort.Slice(crashes, func(i, j int) bool { return crashes[i].idx < crashes[j].idx })
	confirmed := 0
	for _, c := range crashes {
		if confirmed >= 12 {
			// plenty of witnesses; still count the rest
			agg.Counters["child_deaths_unconfirmed"]++
			continue
		}
		sub := &Agg{Prop: p, Tier: tier, Seed: seed, Counters: map[string]int64{}, digests: map[string]struct{}{}, Extra: map[string]interface{}{}}
		again := runRange(env, p, tier, seed, c.idx, c.idx+1, sub, "confirm", 20)
		if len(again) == 0 {
			if len(sub.Broken) > 0 {
				agg.Broken = append(agg.Broken, sub.Broken...)
			} else {
				agg.Inconcl = append(agg.Inconcl, fmt.Sprintf("case %d killed its child (%s) but ran to completion alone", c.idx, map[bool]string{true: "watchdog", false: "crash"}[c.hang]))
				// account for the case's results, since it was skipped in the batch
				agg.merge(ckpt{C: sub.Counters, V: sub.Viols, Q: sub.Inconcl})
			}
			continue
		}
		confirmed++
		if again[0].mem {
			if p.HangIsViolation {
				agg.Viols = append(agg.Viols, Violation{Sig: "memory-exhaustion", What: "the case drove the process beyond the resident-memory limit when run alone (unbounded allocation)", Idx: c.idx,
					Detail: map[string]interface{}{"stderr_tail": Trunc(tailString(again[0].stderr, 3000), 3000)}})
			} else {
				agg.Inconcl = append(agg.Inconcl, fmt.Sprintf("case %d exceeded the resident-memory limit when run alone", c.idx))
			}
			continue
		}
		if again[0].hang {
			if p.HangIsViolation {
				agg.Viols = append(agg.Viols, Violation{Sig: "hang", What: "call did not return within 20x the per-case watchdog when run alone", Idx: c.idx,
					Detail: map[string]interface{}{"goroutines": Trunc(again[0].stderr, 6000)}})
			} else {
				agg.Inconcl = append(agg.Inconcl, fmt.Sprintf("case %d exceeded 20x the per-case watchdog when run alone", c.idx))
			}
			continue
		}
		sig, msg := crashSig(again[0].stderr)
		agg.Viols = append(agg.Viols, Violation{Sig: sig, What: "fatal runtime error killed the process: " + msg, Idx: c.idx,
			Detail: map[string]interface{}{"stderr_tail": Trunc(tailString(again[0].stderr, 6000), 6000)}})
	}
	agg.Counters["child_deaths"] += int64(len(crashes))

	if p.Race {
		parseRaceLogs(env, p, agg)
	}
	if p.Finish != nil {
		p.Finish(agg)
	}
	return conclude(env, agg, total, time.Since(start))
}

// parseRaceLogs counts and de-duplicates race detector reports.
func parseRaceLogs(env Env, p *Prop, agg *Agg) {
	files, _ := filepath.Glob(filepath.Join(env.BuildDir, "race", p.ID, "r.*"))
	type rep struct {
		key, text string
	}
	seen := map[string]string{}
	total := 0
	for _, f := range files {
		b, err := os.ReadFile(f)
		if err != nil {
			continue
		}
		blocks := strings.Split(string(b), "==================")
		for _, bl := range blocks {
			if !strings.Contains(bl, "WARNING: DATA RACE") {
				continue
			}
			total++
			key := raceKey(bl)
			if _, ok := seen[key]; !ok {
				seen[key] = bl
			}
		}
	}
	agg.Counters["race_reports"] = int64(total)
	agg.Counters["race_reports_distinct"] = int64(len(seen))
	keys := make([]string, 0, len(seen))
	for k := range seen {
		keys = append(keys, k)
	}
	sort.Strings(keys)
	for _, k := range keys {
		bl := seen[k]
		if !strings.Contains(bl, "github.com/jf-tech/") && !strings.Contains(bl, "github.com/antchfx/") && !strings.Contains(bl, "github.com/dop251/") {
			agg.Broken = append(agg.Broken, "race report entirely inside the harness:\n"+Trunc(bl, 3000))
			continue
		}
		agg.Viols = append(agg.Viols, Violation{Sig: "race:" + k, What: "data race reported by the Go race detector", Idx: -1,
			Detail: map[string]interface{}{"report": Trunc(bl, 8000)}})
	}
}

var lineNoRe = regexp.MustCompile(`:\d+ \+0x[0-9a-f]+`)

// raceKey: the innermost non-runtime function of each of the two stacks, order-independent.
func raceKey(block string) string {
	var tops []string
	lines := strings.Split(block, "\n")
	for i := 0; i < len(lines); i++ {
		l := lines[i]
		if strings.Contains(l, " by goroutine ") || strings.Contains(l, " by main goroutine") {
			if strings.HasPrefix(strings.TrimSpace(l), "Goroutine") {
				continue
			}
			// following lines: "  func()" then "      file:line +0x.."
			for j := i + 1; j < len(lines); j++ {
				fn := strings.TrimSpace(lines[j])
				if fn == "" {
					break
				}
				if strings.HasPrefix(fn, "/") || strings.HasPrefix(fn, "runtime.") || strings.HasPrefix(fn, "sync.") || strings.HasPrefix(fn, "sync/atomic.") {
					continue
				}
				if k := strings.Index(fn, "("); k > 0 {
					fn = fn[:k]
				}
				tops = append(tops, fn)
				break
			}
		}
	}
	sort.Strings(tops)
	return strings.Join(tops, "|")
}

// ---- conclusion: known findings, replay files, evidence, exit code ----

type knownFinding struct {
	Property string `json:"property"`
	Status   string `json:"status"` // "known" | "fixed"
	Sig      string `json:"sig"`
	What     string `json:"what"`
	Commit   string `json:"commit,omitempty"`
	Line     string `json:"line,omitempty"`
}

func loadKnown(env Env, prop string) map[string]knownFinding {
	out := map[string]knownFinding{}
	b, err := os.ReadFile(filepath.Join(env.VerifDir, "known_findings.json"))
	if err != nil {
		return out
	}
	var doc struct {
		Findings []knownFinding `json:"findings"`
	}
	if err := json.Unmarshal(b, &doc); err != nil {
		fmt.Fprintf(os.Stderr, "known_findings.json unreadable: %v\n", err)
		return out
	}
	for _, k := range doc.Findings {
		if k.Property == prop && k.Status == "known" {
			out[k.Sig] = k
		}
	}
	return out
}

func conclude(env Env, agg *Agg, total int, wall time.Duration) int {
	p := agg.Prop
	known := loadKnown(env, p.ID)

	// minimum-observation rule
	if p.Min != nil {
		for k, min := range p.Min(agg.Tier) {
			if agg.Counters[k] < min {
				agg.Inconcl = append(agg.Inconcl, fmt.Sprintf("observed %s=%d, below the minimum %d this check needs to say anything", k, agg.Counters[k], min))
			}
		}
	}
	if int(agg.Counters["cases"])+int(agg.Counters["child_deaths"]) < total {
		agg.Broken = append(agg.Broken, fmt.Sprintf("only %d of %d cases accounted for", agg.Counters["cases"], total))
	}

	// group violations by signature
	bySig := map[string][]Violation{}
	var sigs []string
	for _, v := range agg.Viols {
		if _, ok := bySig[v.Sig]; !ok {
			sigs = append(sigs, v.Sig)
		}
		bySig[v.Sig] = append(bySig[v.Sig], v)
	}
	sort.Strings(sigs)
	newViol := 0
	knownSeen := []string{}
	var lines []string
	repDir := filepath.Join(env.OutDir, "replays", p.ID)
	for _, sig := range sigs {
		vs := bySig[sig]
		sort.Slice(vs, func(i, j int) bool { return vs[i].Idx < vs[j].Idx })
		if k, ok := known[sig]; ok {
			lines = append(lines, fmt.Sprintf("KNOWN-FINDING: property=%s %s [sig=%s, %d witness(es) this run]", p.ID, k.What, sig, len(vs)))
			knownSeen = append(knownSeen, sig)
			continue
		}
		newViol++
		v := vs[0]
		os.MkdirAll(repDir, 0o755)
		h := sha256.Sum256([]byte(sig))
		path := filepath.Join(repDir, hex.EncodeToString(h[:6])+".json")
		rep := map[string]interface{}{"property": p.ID, "tier": agg.Tier, "seed": agg.Seed, "idx": v.Idx, "sig": sig, "what": v.What,
			"detail": v.Detail, "witnesses_this_run": len(vs)}
		b, _ := json.MarshalIndent(rep, "", " ")
		os.WriteFile(path, b, 0o644)
		fmt.Printf("  what: %s (case %d, %d witness(es))\n", Trunc(v.What, 400), v.Idx, len(vs))
		lines = append(lines, fmt.Sprintf("VIOLATION property=%s replay=%s", p.ID, path))
	}

	// evidence
	samples := agg.Samples
	sort.Slice(samples, func(i, j int) bool { return bytes.Compare(samples[i], samples[j]) < 0 })
	if len(samples) > 5 {
		samples = samples[:5]
	}
	evals := agg.Counters["evaluations"]
	if evals == 0 {
		evals = agg.Counters["cases"]
	}
	cov := map[string]interface{}{
		"evaluations":         evals,
		"distinct_nontrivial": len(agg.digests),
		"rule":                p.Rule,
		"samples":             samples,
		"observed":            agg.Counters,
		"cases_planned":       total,
	}
	if p.Exhaustive != nil && p.Exhaustive(agg.Tier) {
		cov["exhaustive"] = true
	}
	for k, v := range agg.Extra {
		cov[k] = v
	}
	verdict := "held on what was observed"
	switch {
	case len(agg.Broken) > 0:
		verdict = "broken"
	case newViol > 0:
		verdict = "violated"
	case len(agg.Inconcl) > 0:
		verdict = "inconclusive"
	}
	cov["verdict"] = verdict
	if len(agg.Inconcl) > 0 {
		cov["inconclusive"] = capStrings(agg.Inconcl, 20)
	}
	if len(knownSeen) > 0 {
		cov["known_findings_seen"] = knownSeen
	}
	ev := map[string]interface{}{
		"property_id": p.ID,
		"tier":        agg.Tier,
		"seed":        int64(agg.Seed),
		"level":       p.Level,
		"coverage":    cov,
		"assumptions": p.Assumptions,
		"wall_s":      float64(int(wall.Seconds()*100)) / 100,
		"violations":  newViol,
	}
	b, _ := json.MarshalIndent(ev, "", " ")
	evPath := filepath.Join(env.OutDir, "evidence", p.ID+".json")
	os.MkdirAll(filepath.Dir(evPath), 0o755)
	if err := os.WriteFile(evPath, b, 0o644); err != nil {
		fmt.Fprintf(os.Stderr, "cannot write evidence: %v\n", err)
		return 2
	}

	// report
	fmt.Printf("%s %s seed=%d: %d cases, %d evaluations, %d distinct non-trivial, %.1fs — %s\n", p.ID, agg.Tier, agg.Seed,
		agg.Counters["cases"], evals, len(agg.digests), wall.Seconds(), verdict)
	keys := make([]string, 0, len(agg.Counters))
	for k := range agg.Counters {
		keys = append(keys, k)
	}
	sort.Strings(keys)
	var sb strings.Builder
	for _, k := range keys {
		fmt.Fprintf(&sb, " %s=%d", k, agg.Counters[k])
	}
	fmt.Printf("  observed:%s\n", sb.String())
	for _, l := range lines {
		fmt.Println(l)
	}
	for _, q := range capStrings(agg.Inconcl, 10) {
		fmt.Printf("INCONCLUSIVE property=%s why=%s\n", p.ID, Trunc(q, 500))
	}
	for _, q := range capStrings(agg.Broken, 5) {
		fmt.Printf("BROKEN property=%s why=%s\n", p.ID, Trunc(q, 3000))
	}
	switch verdict {
	case "violated":
		return 1
	case "broken", "inconclusive":
		if newViol > 0 {
			return 1
		}
		return 2
	}
	return 0
}

func capStrings(s []string, n int) []string {
	if len(s) <= n {
		return s
	}
	out := append([]string{}, s[:n]...)
	return append(out, fmt.Sprintf("... and %d more", len(s)-n))
}

// ReplayMain re-runs the case named by a replay file in-process and prints what it observes.
func ReplayMain(path string) int {
	b, err := os.ReadFile(path)
	if err != nil {
		fmt.Fprintln(os.Stderr, err)
		return 2
	}
	var rep struct {
		Property string `json:"property"`
		Tier     Tier   `json:"tier"`
		Seed     uint64 `json:"seed"`
		Idx      int    `json:"idx"`
		Sig      string `json:"sig"`
		What     string `json:"what"`
	}
	if err := json.Unmarshal(b, &rep); err != nil {
		fmt.Fprintln(os.Stderr, err)
		return 2
	}
	p := Lookup(rep.Property)
	if p == nil {
		fmt.Fprintf(os.Stderr, "unknown property %s\n", rep.Property)
		return 2
	}
	if rep.Idx < 0 {
		fmt.Printf("witness is not a single case (e.g. a race report); recorded: %s\n", rep.What)
		return 1
	}
	fmt.Printf("replaying %s tier=%s seed=%d case=%d (recorded sig=%s)\n", rep.Property, rep.Tier, rep.Seed, rep.Idx, rep.Sig)
	c, broken := runCase(p, rep.Tier, rep.Seed, rep.Idx, true)
	if broken != "" {
		fmt.Println("BROKEN:", broken)
		return 2
	}
	same := false
	for _, v := range c.viols {
		if v.Sig == rep.Sig {
			same = true
		}
	}
	fmt.Printf("violations observed on replay: %d (recorded signature reproduced: %v)\n", len(c.viols), same)
	if len(c.viols) > 0 {
		fmt.Printf("VIOLATION property=%s replay=%s\n", rep.Property, path)
		return 1
	}
	return 0
}

// CaseMain runs one case verbosely in-process (debugging aid; same code path as replay).
func CaseMain(id string, tier Tier, seed uint64, idx int) int {
	p := Lookup(id)
	if p == nil {
		fmt.Fprintf(os.Stderr, "unknown property %s\n", id)
		return 2
	}
	c, broken := runCase(p, tier, seed, idx, true)
	if broken != "" {
		fmt.Println("BROKEN:", broken)
		return 2
	}
	b, _ := json.MarshalIndent(map[string]interface{}{"counters": c.counters, "samples": c.samples, "inconclusive": c.inconcl}, "", " ")
	fmt.Println(Trunc(string(b), 20000))
	fmt.Printf("violations: %d\n", len(c.viols))
	if len(c.viols) > 0 {
		return 1
	}
	return 0
}
