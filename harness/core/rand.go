// Package core is the runtime-monitoring framework shared by all property checks:
// deterministic PRNG, case runner with child-process isolation, evidence and replay writers,
// known-finding matching.
package core

import (
	"hash/fnv"
)

// Rand is an own xoshiro256** generator seeded through splitmix64, so that case lists are a pure
// function of VERIF_SEED and do not depend on the Go version's math/rand.
type Rand struct {
	s [4]uint64
}

func splitmix64(x *uint64) uint64 {
	*x += 0x9e3779b97f4a7c15
	z := *x
	z = (z ^ (z >> 30)) * 0xbf58476d1ce4e5b9
	z = (z ^ (z >> 27)) * 0x94d049bb133111eb
	return z ^ (z >> 31)
}

// NewRand creates a generator from a 64-bit seed.
func NewRand(seed uint64) *Rand {
	r := &Rand{}
	x := seed
	for i := range r.s {
		r.s[i] = splitmix64(&x)
	}
	return r
}

// CaseRand derives the generator for one case from (seed, property id, case index).
func CaseRand(seed uint64, prop string, idx int) *Rand {
	h := fnv.New64a()
	h.Write([]byte(prop))
	x := seed ^ (h.Sum64() * 0x9e3779b97f4a7c15) ^ (uint64(idx)+1)*0xd1342543de82ef95
	return NewRand(x)
}

func rotl(x uint64, k uint) uint64 { return (x << k) | (x >> (64 - k)) }

// Uint64 returns the next 64 random bits.
func (r *Rand) Uint64() uint64 {
	res := rotl(r.s[1]*5, 7) * 9
	t := r.s[1] << 17
	r.s[2] ^= r.s[0]
	r.s[3] ^= r.s[1]
	r.s[1] ^= r.s[2]
	r.s[0] ^= r.s[3]
	r.s[2] ^= t
	r.s[3] = rotl(r.s[3], 45)
	return res
}

// Intn returns a value in [0,n). n<=0 yields 0.
func (r *Rand) Intn(n int) int {
	if n <= 0 {
		return 0
	}
	return int(r.Uint64() % uint64(n))
}

// Range returns a value in [lo,hi] inclusive.
func (r *Rand) Range(lo, hi int) int {
	if hi <= lo {
		return lo
	}
	return lo + r.Intn(hi-lo+1)
}

// Int63n returns a value in [0,n).
func (r *Rand) Int63n(n int64) int64 {
	if n <= 0 {
		return 0
	}
	return int64(r.Uint64() % uint64(n))
}

// Bool returns a fair coin.
func (r *Rand) Bool() bool { return r.Uint64()&1 == 1 }

// Chance returns true with probability num/den.
func (r *Rand) Chance(num, den int) bool { return r.Intn(den) < num }

// Float64 returns a value in [0,1).
func (r *Rand) Float64() float64 { return float64(r.Uint64()>>11) / (1 << 53) }

// Pick returns one of the strings.
func (r *Rand) Pick(ss ...string) string { return ss[r.Intn(len(ss))] }

// PickRune returns one rune of the slice.
func (r *Rand) PickRune(rs []rune) rune { return rs[r.Intn(len(rs))] }

// Perm returns a random permutation of [0,n).
func (r *Rand) Perm(n int) []int {
	p := make([]int, n)
	for i := range p {
		p[i] = i
	}
	for i := n - 1; i > 0; i-- {
		j := r.Intn(i + 1)
		p[i], p[j] = p[j], p[i]
	}
	return p
}

// Fork derives an independent generator (used to decouple sub-generators so that adding a draw to one
// does not shift the others).
func (r *Rand) Fork() *Rand { return NewRand(r.Uint64()) }

// Pick2 returns one of the ints.
func (r *Rand) Pick2(vals ...int) int { return vals[r.Intn(len(vals))] }
