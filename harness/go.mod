module verif/harness

go 1.23

require github.com/jf-tech/omniparser v0.0.0

replace github.com/jf-tech/omniparser => /repo
