// vrun is the single binary behind /verif/check: `vrun run <Cxx> quick|thorough`, `vrun replay <file>`,
// and the internal `vrun child ...` used for process-isolated batches.
package main

import (
	"fmt"
	"os"
	"strconv"
	"strings"

	"verif/harness/core"
	"verif/harness/props"
)

func main() {
	if len(os.Args) < 2 {
		usage()
	}
	switch os.Args[1] {
	case "run":
		if len(os.Args) < 4 {
			usage()
		}
		os.Exit(core.Main(os.Args[2], core.Tier(os.Args[3])))
	case "replay":
		if len(os.Args) < 3 {
			usage()
		}
		os.Exit(core.ReplayMain(os.Args[2]))
	case "case": // vrun case <id> <tier> <seed> <idx> : run one case verbosely in-process
		if len(os.Args) < 6 {
			usage()
		}
		seed, _ := strconv.ParseUint(os.Args[4], 10, 64)
		idx, _ := strconv.Atoi(os.Args[5])
		os.Exit(core.CaseMain(os.Args[2], core.Tier(os.Args[3]), seed, idx))
	case "child":
		// child <id> <tier> <seed> <lo> <hi> <skipcsv> <out>
		if len(os.Args) < 9 {
			usage()
		}
		p := core.Lookup(os.Args[2])
		if p == nil {
			fmt.Fprintln(os.Stderr, "unknown property", os.Args[2])
			os.Exit(2)
		}
		seed, _ := strconv.ParseUint(os.Args[4], 10, 64)
		lo, _ := strconv.Atoi(os.Args[5])
		hi, _ := strconv.Atoi(os.Args[6])
		skip := map[int]bool{}
		for _, s := range strings.Split(os.Args[7], ",") {
			if s == "" {
				continue
			}
			n, _ := strconv.Atoi(s)
			skip[n] = true
		}
		core.ChildMain(p, core.Tier(os.Args[3]), seed, lo, hi, skip, os.Args[8])
	case "xdigest":
		if len(os.Args) < 3 {
			usage()
		}
		os.Exit(props.XDigestMain(os.Args[2]))
	case "list":
		for _, id := range core.IDs() {
			fmt.Println(id)
		}
	default:
		usage()
	}
}

func usage() {
	fmt.Fprintln(os.Stderr, "usage: vrun run <Cxx> quick|thorough | vrun replay <file> | vrun case <Cxx> <tier> <seed> <idx> | vrun list")
	os.Exit(2)
}
