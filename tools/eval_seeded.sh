#!/bin/bash
# tools/eval_seeded.sh <dir with patch.diff [demo_test.go ...]> <Cxx> [more checks...]
# Confirms a seeded change in a scratch worktree of /repo (never in /repo itself):
#   1. patch applies (plain, then --3way) on /repo HEAD   2. go build + the whole existing test suite pass with the patch
#   3. (if demo given) demo fails with the patch and passes without it
#   4. runs the named checks (quick) against the patched worktree and reports which ones raise a VIOLATION
# Output: one summary line per step on stdout; details under <dir>/eval/.
set -u
dir=$(readlink -f "$1"); shift
export GOFLAGS=-mod=mod GOPROXY=off GOSUMDB=off GOTOOLCHAIN=local
W=/tmp/verif-seed.$$
mkdir -p "$dir/eval"
git -C /repo worktree add -q --detach "$W" HEAD || exit 2
H=$(echo "$W" | md5sum | cut -c1-8)
trap 'git -C /repo worktree remove --force "$W" >/dev/null 2>&1; rm -f /verif/.build/go.$H.* /verif/.build/vrun.$H /verif/.build/vrun-race.$H /verif/.build/build.$H.log; rm -rf "$dir/eval/out"' EXIT
demo=""; demopkg=""
[ -f "$dir/demo_test.go" ] && demo="$dir/demo_test.go"
if [ -n "$demo" ]; then
  pk=$(grep -m1 '^package ' "$demo" | awk '{print $2}')
  case "$pk" in
    omniparser|omniparser_test) demopkg="." ;;
    idr|idr_test) demopkg="idr" ;;
    customfuncs|customfuncs_test) if grep -q "extensions/omniv21/customfuncs\|goja\|JavaScript" "$demo" && ! grep -q "DateTime" "$demo"; then demopkg="extensions/omniv21/customfuncs"; else demopkg="customfuncs"; fi ;;
    edi|edi_test) demopkg="extensions/omniv21/fileformat/edi" ;;
    transform|transform_test) demopkg="extensions/omniv21/transform" ;;
    *) demopkg="." ;;
  esac
  [ -f "$dir/PLACEMENT.txt" ] && grep -q "extensions/omniv21/customfuncs" "$dir/PLACEMENT.txt" && demopkg="extensions/omniv21/customfuncs"
  # an explicit package directory named in the README's placement note wins
  if [ -f "$dir/README.md" ]; then
    p=$(grep -i -m1 'demo_test.go. goes in\|placement\|goes into\|place it in\|placed in' "$dir/README.md" | grep -o '`[a-z][A-Za-z0-9_/.]*/`' | tr -d '`' | grep -v '^/tmp' | head -1 | sed 's#/$##')
    [ -n "$p" ] && [ -d "$W/$p" ] && demopkg="$p"
  fi
fi
rundemo() { # $1 = label
  cp "$demo" "$W/$demopkg/zz_seed_demo_test.go"
  local names race=""
  names=$(grep -oh '^func Test[A-Za-z0-9_]*' "$demo" | sed 's/^func //' | paste -sd'|')
  grep -qs 'must be run with `-race`\|under `-race`\|go test -race\|with -race' "$dir/README.md" "$demo" && ! grep -qs 'not run it with `-race`\|Do not run it with `-race`' "$dir/README.md" && race="-race"
  local tags=""
  grep -qs -- '-tags verif' "$dir/README.md" "$demo" && tags="-tags verif"
  ( cd "$W/$demopkg" && timeout 900 go test -count=1 -vet=off $race $tags -run "^(${names})\$" . ) > "$dir/eval/demo_$1.log" 2>&1
  rc=$?
  rm -f "$W/$demopkg/zz_seed_demo_test.go"
  return $rc
}
if [ -n "$demo" ]; then
  if rundemo without; then echo "demo without patch: PASS"; else echo "demo without patch: FAIL (rc=$?)"; fi
fi
if git -C "$W" apply "$dir/patch.diff" 2>/dev/null; then echo "patch: applies"
elif git -C "$W" apply --3way "$dir/patch.diff" 2>"$dir/eval/apply.log"; then echo "patch: applies with --3way"
else echo "patch: DOES NOT APPLY"; exit 3; fi
git -C "$W" diff > "$dir/eval/patch_on_head.diff"
( cd "$W" && go build ./... && go build -tags verif ./... ) > "$dir/eval/build.log" 2>&1 && echo "build: ok" || { echo "build: FAILED"; exit 4; }
( cd "$W" && go test -count=1 -vet=off ./... ) > "$dir/eval/suite.log" 2>&1 && echo "suite with patch: PASS" || echo "suite with patch: FAIL"
if [ -n "$demo" ]; then
  if rundemo with; then echo "demo with patch: PASS (not a demonstration)"; else echo "demo with patch: FAIL (as required)"; fi
fi
for id in "$@"; do
  ( cd /verif && VERIF_REPO="$W" VERIF_OUT_DIR="$dir/eval/out" timeout 5400 ./check "$id" quick ) > "$dir/eval/check_$id.log" 2>&1
  rc=$?
  n=$(grep -c '^VIOLATION' "$dir/eval/check_$id.log")
  echo "check $id: exit=$rc violations=$n $(grep -m1 'what:' "$dir/eval/check_$id.log" | cut -c1-160)"
done
