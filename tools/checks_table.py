# Table consumed by mkmanifest.py
HOOK_COMMITS = []
NA = {}

check("C19", "exploration", "runtime monitor with arithmetic oracle (instant-side generation, expected values from Go time arithmetic)",
      "Held on every generated call (quick: 4e5, thorough: 2e7 calls) of the four exported date-time functions over instants in years 1..9999 "
      "(boundaries, leap days, DST transitions +-1s), every advertised smart-parse form, every loadable IANA zone, both epoch units. "
      "Exploration, not proof: says nothing about inputs not generated.",
      "Trusted: Go time package and /usr/share/zoneinfo for expected values. LMT-era offsets with seconds compare wall clock + minute offset.",
      "DESIGN.md section 3 C19")
