# Table consumed by mkmanifest.py
HOOK_COMMITS = []
NA = {}

check("C19", "exploration", "runtime monitor with arithmetic oracle (instant-side generation, expected values from Go time arithmetic)",
      "Held on every generated call (quick: 4e5, thorough: 2e7 calls) of the four exported date-time functions over instants in years 1..9999 "
      "(boundaries, leap days, DST transitions +-1s), every advertised smart-parse form, every loadable IANA zone, both epoch units. "
      "Exploration, not proof: says nothing about inputs not generated.",
      "Trusted: Go time package and /usr/share/zoneinfo for expected values. LMT-era offsets with seconds compare wall clock + minute offset.",
      "DESIGN.md section 3 C19")

check("C08", "exploration", "runtime differential monitor: idr tree vs standard-decoder mirror (encoding/json value, encoding/xml Token+RawToken DOM)",
      "Held on every generated document (quick 1.2e4, thorough 6e5): JSON trees convert back to a value deep-equal to encoding/json's decoding "
      "(incl. empty keys/containers, escapes, numeric spellings) and `copy` reproduces every record end-to-end through Read; XML trees equal a mirror "
      "DOM built from the standard decoder's tokens in element order, names, prefixes, URIs, attributes and character data.",
      "Trusted: encoding/json, encoding/xml. No duplicate JSON keys. Where two prefixes are bound to one namespace URI the generator writes the innermost-declared one (the standard decoder reports URIs, not lexical prefixes).",
      "DESIGN.md section 3 C08")

HOOK_COMMITS.append("a527d01")
HOOK_COMMITS.append("99b2143")

check("C11", "exploration", "runtime differential monitor: idr.MatchAll vs antchfx/xmlquery navigator on a harness-built DOM, same xpath engine",
      "Held on every generated (document, expression, context) triple (quick 8e4, thorough 4e6 queries): same nodes, order and string-values as the "
      "reference DOM binding for all axes, node tests, positional/string predicates, functions and unions, from the root and from inner nodes.",
      "Trusted: antchfx/xpath engine; xmlquery navigator with one documented correction (document-node string-value per XPath 1.0 5.1).",
      "DESIGN.md section 3 C11")

check("C12", "exploration", "runtime invariant monitor: abstract tree model in lock-step + structural audit at every quiescent point + Go race detector on racing acquisitions",
      "Held on every operation of every generated history (quick 2e6 ops / 5e5 audits; thorough ~40x), on every record tree of all seven readers, and on "
      "G in {2,4,16,64} goroutines x GOMAXPROCS in {1,2,4,16} racing on the shared pool and ID counter with zero race reports and pairwise distinct IDs.",
      "Harness owns its nodes via the public idr API. The race detector sees only interleavings that occurred.",
      "DESIGN.md section 3 C12")

check("C09", "exploration", "runtime self-differential monitor: transcript under bytes.Reader vs 9 chunked delivery schedules of the same bytes",
      "Held on every (input, schedule) pair (quick 1.1e4, thorough 5e5) over all seven formats, three encodings, BOM/CRLF/terminator variants, "
      "well-formed and mutated inputs, multi-line records and records straddling 4 KiB / 8 KiB / 64 KiB buffers: byte-identical results, errors and checksums.",
      "Chunk reader obeys the io.Reader contract. json/xml 'rough' error line numbers masked, nothing else.",
      "DESIGN.md section 3 C09")

check("C16", "fault_enumeration", "fault injection through the caller's io.Reader at every byte offset x 4 fault kinds, trace monitor on the Read history",
      "For every generated input (quick 42, thorough 1050 inputs of all formats) EVERY byte offset is a fault point with persistent, transient, "
      "data-with-error and transient-data-with-error faults: a non-EOF fatal error surfaces within R+2 Reads, is sticky, and earlier results equal the fault-free run. "
      "One recorded known finding (old fixed-length by_header_footer, partial header line).",
      "Faults are errors.New values; a fault the library never reads up to is not counted.",
      "DESIGN.md section 3 C16")

check("C18", "exploration", "runtime self-differential monitor: (bytes, declared encoding) vs (harness-converted UTF-8, utf-8); BOM vs BOM-less",
      "Held on every generated input (quick 2.8e3, thorough 1.4e5 comparisons): all 256 byte values per format and encoding as payload, pairs around "
      "structural bytes, undefined windows-1252 bytes, EF BB BF under each encoding, BOM split across one-byte reads; identical results, errors and checksums.",
      "Harness conversion tables define the code pages; for the five undefined windows-1252 bytes both customary treatments (C1 control / U+FFFD) are accepted.",
      "DESIGN.md section 3 C18")

check("C17", "exploration", "runtime retention monitor: reachable-node count sampled at delivered records of lazily generated streams",
      "Held on every sampled record of 99 streams (7 formats x separators x pass/filter/failing/rich, respelled filters, runs of non-targets, hierarchical targets, separator envelopes, scalar JSON targets; quick 5e3, thorough 2e5 records each): tree size "
      "in the second half never exceeds the first quarter's maximum. One recorded known finding (xml inter-record text nodes).",
      "Retention = reachable idr nodes (the statement's metric). Records of a stream share one shape.",
      "DESIGN.md section 3 C17")

check("C10", "exploration", "runtime metamorphic monitor over per-position transcripts (concatenation, permutation, failing-record replacement)",
      "Held on every relation instance (quick 8e3, thorough 3e5) over all seven formats and schemas that address only the record: T(A++B)=T(A)++T(B), "
      "T(perm A)=perm T(A), and a failing record (cast / custom function / double match) changes exactly its own position into a per-record failure.",
      "Only the location prefix (line/segment/char numbers) of error messages is masked.",
      "DESIGN.md section 3 C10")

check("C15", "exploration", "runtime self-differential monitor over histories and processes + checksum pair oracle",
      "Held on every (schema, input, externals) (quick 840, thorough 2.8e4 cases): identical transcripts on repeat, with a re-created Schema, after 5-25 "
      "other transforms in the same process, on a Schema object that first served other externals, and in a fresh process with another GOMAXPROCS (incl. bulk javascript_with_context inputs); checksums equal for equal raw records and different for "
      "records differing in one leaf value. Two recorded known findings (xml attributes not entering the checksum).",
      "now/uuid/random scripts excluded. XML mixed-content text is reported, not decided.",
      "DESIGN.md section 3 C15")

check("C13", "exploration", "runtime self-differential monitor over cache configurations + online reparse hook with the result cache disabled",
      "Held on every generated (rich schema, multi-record input) (quick 1500, thorough 6e4 schemas x 5 configurations + online K5): transcripts with the node "
      "pool off, javascript caches off, every LRU at capacity one, everything emptied after every Read, and re-evaluation of each live record with "
      "the per-record result cache disabled are byte-identical to all-caches-on. One recorded known finding (a cached map shared with a script that writes into it).",
      "Switches are process-global and restored after each case. VerifReparse uses the real ParseNode.",
      "DESIGN.md section 3 C13")

check("C01", "exploration", "runtime trace-specification monitor + executable model of the Transform wrapper in lock-step over a scripted caller-supplied handler",
      "Held on every call of every generated history (quick 1.6e5, thorough 6e6 calls): result classes, nil-bytes-with-error, valid UTF-8 JSON, "
      "stickiness of terminal results (up to 20 calls past them), RawRecord gating/identity/idempotence/checksum, for the seven built-in readers, the "
      "jsonlog sample format and a scripted handler producing every legal-but-nasty step.",
      "Classes derive from public predicates only. A handler never returns nil RawRecord with nil error.",
      "DESIGN.md section 3 C01")

check("C05", "exploration", "runtime differential monitor: real edi/csv2/fixedlength2 readers vs an independent recursive reference matcher, unique unit ids, conservation check",
      "Held on every (hierarchy, unit sequence) pair (quick 1e5, thorough >4e6 incl. every sequence of length <=5 over 4 names for a third of the hierarchies): "
      "delivered target trees, their ancestor chains and the terminal result equal the greedy non-backtracking matcher's; no unit delivered twice; inputs with "
      "and without final terminator. One recorded known finding (edi top-level hierarchy starts over).",
      "The reference matcher is the documented semantics written recursively. max=0 not generated.",
      "DESIGN.md section 3 C05")

check("C06", "exploration", "runtime round-trip monitor: harness-encoded logical tables read back through csv/csv2/fixed-length/fixedlength2 and compared cell by cell",
      "Held on every cell of every generated table (quick 1.4e5, thorough 1e7 cells): exact text per declared column on the raw record tree and through a "
      "no_trim pass-through schema, for all single-rune delimiter classes, quoting, embedded delimiters/newlines, short/long rows, index gaps, overlapping and "
      "out-of-line fixed-length columns, multi-line records, buffer-straddling lines, blank lines, and old-csv header verification.",
      "Go csv / bufio normalisations the docs point to (CRLF->LF in quoted fields, CR before LF) are part of the expectation.",
      "DESIGN.md section 3 C06")

check("C07", "exploration", "runtime round-trip monitor: harness-escaped logical segments vs edi.NonValidatingReader grid and schema-level element nodes",
      "Held on every segment of every generated configuration (quick 3e4 segments / 1.8e5 components, thorough 40x): exact (element, component) grid with "
      "escaped bytes at the raw reader, unescaped logical strings and one node per repetition through the schema, fatal-unless-default for absent elements, "
      "for single/multi-byte/two-rune/newline/CRLF delimiters, release characters, ignore_crlf noise and segments up to ~60 KiB.",
      "Pairwise distinct, non-nested delimiters. Lone trailing release characters and invalid UTF-8 not generated.",
      "DESIGN.md section 3 C07")

check("C04", "exploration", "runtime differential monitor: idr stream readers and Transform.Read vs whole-document xpath selection on a mirror DOM built from the standard decoders",
      "Held on every (document, target xpath) pair (quick 1.4e4, thorough 7e5): delivered nodes equal, in document order and with complete subtrees, the outermost "
      "candidates that satisfy the full xpath, for nested and rejected candidates, zero/one/two trailing predicates, XML with attributes/namespaces/mixed content "
      "and JSON with any value at any level; with and without Release; end to end under a copy schema.",
      "antchfx/xpath over a harness-built DOM computes the whole-document selection; out-of-class xpaths never generated.",
      "DESIGN.md section 3 C04")

check("C20", "exploration", "runtime isolation monitor: enumerating probe scripts + value-map oracle over sequential and concurrent call histories, Go race detector, end-to-end _node comparison",
      "Held on every call (quick 4e5, thorough ~2e7) of sequential histories on recycled VMs and of G in {2,4,16,64} goroutines x GOMAXPROCS in {1,2,4,16} sharing the VM "
      "pool and caches with zero race reports: probes see exactly their own arguments, values map to the expected JSON (incl. results whose export re-enters the VM), "
      "NaN/Infinity/null/undefined/throw are errors, _node equals the live node's present content for record, descendant and ancestor.",
      "Scripts are IIFEs without globals. _node's expected value is idr.JSONify2 of the live node at observation time.",
      "DESIGN.md section 3 C20")

check("C14", "exploration", "Go race detector + cross-talk monitor (concurrent, interleaved and cold-start transcripts vs serial twins; live node-ID ledger) with yields injected at real suspension points",
      "Held on every concurrent job (quick 1.5e4, thorough ~4e5) of arenas with shared Schema objects of all formats (incl. javascript, templates, target filters): "
      "G in {2,8,32,128} goroutines x GOMAXPROCS in {1,2,4,16}, zero race reports, every transcript byte-identical to its serial twin; also for 2-4 live transforms "
      "advanced in turns in one goroutine and for 2-8 goroutines that are the first users of a freshly loaded schema; no node ID carried by two live nodes.",
      "One Transform per goroutine. The race detector sees only interleavings that occurred (yields injected and goroutine-stamp windows reported).",
      "DESIGN.md section 3 C14")

check("C03", "exploration", "runtime crash/hang monitor: recover + child-death attribution + logical Read bound + reader spin detector + memory/time watchdogs over mutated schemas and hostile inputs",
      "Held on every call (quick 6e3 schemas / ~8e3 transform runs, thorough 3e5 schemas): no panic or fatal runtime error escaped NewSchema / NewTransform / Read, every finite "
      "input reached a terminal result within len(input)+2 Reads, no spinning on an exhausted reader, no unbounded allocation; seeds = the repository's 20 sample schemas, "
      "all format kits, rich declaration trees, hierarchies; JSON-level and byte-level schema mutation, adversarial families, hostile inputs incl. 1e4-1e5 nesting levels.",
      "User JavaScript that loops and caller-registered functions' own failures are outside the claim.",
      "DESIGN.md section 3 C03")

check("C02", "exploration", "runtime differential monitor: Transform.Read vs an independent reference evaluator of the documented transform rules on a mirror of the live record tree",
      "Held on every record (quick 1.6e4, thorough 6e5) of generated rich schemas over all seven formats and nested xml/json: byte-level value equality (or both fail) for "
      "const/external/field/object/array/template/custom_func trees with shared templates, textually identical declarations on different routes, xpath and xpath_dynamic "
      "anchors, all type/no_trim/keep_empty_or_null combinations, arrays with 0/1/many matches and >9 elements, absent arguments as zero values.",
      "antchfx/xpath and the harness's function models are trusted; `copy` rendering is C08's; documented-unspecified outcomes are skipped; kept empty array may be null or [].",
      "DESIGN.md section 3 C02")
