#!/bin/bash
# tools/with_patch.sh <patch.diff> <Cxx> [quick|thorough]  — runs a check against a scratch worktree of /repo with the patch applied
# (never touches /repo's working tree); the worktree and its build output are removed afterwards.
set -u
patch=$(readlink -f "$1"); id=$2; mode=${3:-quick}
W=/tmp/verif-mut.$$
git -C /repo worktree add -q --detach "$W" HEAD || exit 2
H=$(echo "$W" | md5sum | cut -c1-8); O=/tmp/verif-mut-out.$$
trap 'git -C /repo worktree remove --force "$W" >/dev/null 2>&1; rm -f /verif/.build/go.$H.* /verif/.build/vrun.$H /verif/.build/vrun-race.$H /verif/.build/build.$H.log; rm -rf "$O"' EXIT
git -C "$W" apply "$patch" || { echo "patch does not apply"; exit 2; }
cd /verif && VERIF_REPO="$W" VERIF_OUT_DIR="$O" ./check "$id" "$mode"
