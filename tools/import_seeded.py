#!/usr/bin/env python3
"""tools/import_seeded.py <root with Cxx/mN dirs evaluated by tools/matrix.sh>
Copies confirmed seeded changes into /verif/seeded/<Cxx-mN>/ (patch.diff applicable to /repo HEAD, the sub-agent's demonstration and
description, meta.json) and prints the table for DESIGN.md section 8."""
import json, os, re, shutil, subprocess, sys
root = sys.argv[1]
head = subprocess.check_output(['git', '-C', '/repo', 'rev-parse', '--short', 'HEAD'], text=True).strip()
rows = []
for c in sorted(os.listdir(root)):
    if not re.fullmatch(r'C\d\d', c):
        continue
    for m in sorted(os.listdir(os.path.join(root, c))):
        d = os.path.join(root, c, m)
        ev = os.path.join(d, 'eval_all.txt')
        if not os.path.isfile(ev):
            continue
        t = open(ev).read()
        conf = {
            'patch_applies_on_repo_head': 'patch: applies' in t,
            'builds_with_and_without_verif_tag': 'build: ok' in t,
            'existing_suite_passes_with_patch': 'suite with patch: PASS' in t,
            'demo_passes_without_patch': 'demo without patch: PASS' in t,
            'demo_fails_with_patch': 'demo with patch: FAIL' in t,
        }
        if not all(conf.values()):
            print('NOT CONFIRMED', c, m, conf, file=sys.stderr)
            continue
        caught, missed = [], []
        for line in t.splitlines():
            mm = re.match(r'check (C\d\d): exit=(\d+) violations=(\d+)\s*(.*)', line)
            if mm:
                (caught if mm.group(2) == '1' and int(mm.group(3)) > 0 else missed).append(mm.group(1))
        readme = open(os.path.join(d, 'README.md')).read() if os.path.isfile(os.path.join(d, 'README.md')) else ''
        title = readme.splitlines()[0].lstrip('# ').strip() if readme else ''
        needs = ''
        mm = re.search(r'^## What it needs[^\n]*\n(.*?)(?=^## |\Z)', readme, re.S | re.M)
        if mm:
            needs = mm.group(1).strip()
        out = os.path.join('/verif/seeded', f'{c}-{m}')
        os.makedirs(out, exist_ok=True)
        for f in ('patch.diff', 'demo_test.go', 'README.md', 'PLACEMENT.txt'):
            if os.path.isfile(os.path.join(d, f)):
                shutil.copy(os.path.join(d, f), os.path.join(out, f))
        ported = os.path.isfile(os.path.join(d, 'patch_orig.diff'))
        if ported:
            shutil.copy(os.path.join(d, 'patch_orig.diff'), os.path.join(out, 'patch_as_written_by_subagent.diff'))
        what = {}
        for line in t.splitlines():
            mm = re.match(r'check (C\d\d): exit=1 violations=\d+\s*what: (.*)', line)
            if mm:
                what[mm.group(1)] = mm.group(2).strip()
        meta = {
            'id': f'{c}-{m}', 'breaks_property': c, 'title': title,
            'needs_to_manifest': needs,
            'patch_applies_to_repo_commit': head,
            'ported_to_head_by_hand': ported,
            'confirmed_in_scratch_worktree': conf,
            'ran': ['tools/eval_seeded.sh <dir> ' + ' '.join(caught + missed) + '   # scratch worktree of /repo HEAD: git apply, go build (with and without -tags verif), go test -count=1 -vet=off ./..., demo with/without the patch, ./check <id> quick with VERIF_REPO=<worktree>'],
            'caught_by_quick_checks': caught, 'first_violation_reported': what,
            'not_caught_by': missed,
        }
        json.dump(meta, open(os.path.join(out, 'meta.json'), 'w'), indent=1)
        rows.append((f'{c}-{m}', title, caught))
print('| change | what it does | quick checks that raise a VIOLATION |')
print('|---|---|---|')
for i, t, cs in rows:
    t = re.sub(r'^C\d\d\s*/\s*m\d\s*[-—–]+\s*', '', t)
    print(f'| {i} | {t} | {", ".join(cs) if cs else "none"} |')
