#!/bin/bash
# tools/matrix.sh <seeded root dir> [parallel]  — runs every seeded change under <root>/<Cxx>/<mN>/ against every registered check
# (scratch worktrees, own output dirs) and writes <root>/matrix.txt: one line per change with the checks that raised a VIOLATION.
root=$(readlink -f "$1"); par=${2:-4}
cd "$(dirname "$0")/.."
ids=$(python3 -c "import json;print(' '.join(c['property_id'] for c in json.load(open('MANIFEST.json'))['checks']))")
ls -d "$root"/C??/m? | xargs -P "$par" -I{} sh -c "tools/eval_seeded.sh {} $ids > {}/eval_all.txt 2>&1"
: > "$root/matrix.txt"
for d in $(ls -d "$root"/C??/m?); do
  name=$(basename $(dirname $d))/$(basename $d)
  ok=$(grep -c "suite with patch: PASS" $d/eval_all.txt); demo=$(grep -c "demo with patch: FAIL" $d/eval_all.txt)
  caught=$(grep "^check C" $d/eval_all.txt | grep "exit=1 " | sed 's/check \(C[0-9]*\):.*/\1/' | tr '\n' ' ')
  broken=$(grep "^check C" $d/eval_all.txt | grep -v "exit=1 \|exit=0 " | sed 's/check \(C[0-9]*\): \(exit=[0-9]*\).*/\1(\2)/' | tr '\n' ' ')
  echo "$name suite_pass=$ok demo_fails=$demo caught_by: $caught ${broken:+other: $broken}" >> "$root/matrix.txt"
done
cat "$root/matrix.txt"
