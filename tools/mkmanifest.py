#!/usr/bin/env python3
"""Regenerates /verif/MANIFEST.json from the table below (kept in one place so that the manifest is always valid)."""
import json, os, sys
HERE = os.path.dirname(os.path.dirname(os.path.abspath(__file__)))
props = [json.loads(l) for l in open(os.path.join(HERE, "properties.jsonl"))]
ids = [p["id"] for p in props]

# id -> (level category, technique, level text, level note, design ref)
CHECKS = {}
def check(id, cat, technique, text, note, ref):
    CHECKS[id] = dict(cat=cat, technique=technique, text=text, note=note, ref=ref)

exec(open(os.path.join(HERE, "tools", "checks_table.py")).read())

NOT_BUILT = "monitor not built yet in this round (see DESIGN.md section 3 for the planned runtime monitor)"
man = {
    "version": 1,
    "setup_cmd": "./check build",
    "hooks": {
        "guard": "verif",
        "enable": "go build -tags verif (the harness module replaces github.com/jf-tech/omniparser with /repo's working tree)",
        "baseline_off_cmd": "cd /repo && GOFLAGS=-mod=mod GOPROXY=off GOSUMDB=off go test -json -vet=off -count=1 -timeout 25m ./...",
        "source_commits": HOOK_COMMITS,
        "add_only": True,
    },
    "engines": [{
        "name": "vrun", "path": "harness/cmd/vrun", "serves_properties": sorted(CHECKS),
        "kind_free_text": "Go runtime-monitoring harness: generators + reference models + online monitors over the real library, child-process isolation, Go race detector for C12/C14/C20",
    }],
    "checks": [],
    "notes": "Technique family: runtime monitoring and sanitizers. Every check rebuilds the harness against /repo's working tree (-tags verif). "
             "Exit 0 held / 1 VIOLATION / 2 inconclusive-or-broken. Known findings: known_findings.json.",
    "not_applicable": [],
}
for i in ids:
    if i in CHECKS:
        c = CHECKS[i]
        man["checks"].append({
            "property_id": i,
            "quick_cmd": f"./check {i} quick",
            "thorough_cmd": f"./check {i} thorough",
            "evidence_file": f"/verif/evidence/{i}.json",
            "replay_cmd_template": f"./check {i} replay {{path}}",
            "engine": "vrun",
            "level_claimed": {"category": c["cat"], "text": c["text"], "design_ref": c["ref"]},
            "level_note": c["note"],
            "technique": c["technique"],
        })
    else:
        man["not_applicable"].append({"property_id": i, "reason": NA.get(i, NOT_BUILT)})
json.dump(man, open(os.path.join(HERE, "MANIFEST.json"), "w"), indent=1)
print("MANIFEST.json:", len(man["checks"]), "checks,", len(man["not_applicable"]), "not claimed")
