#!/bin/bash
# tools/sweep.sh [seed] [tier]  — runs every registered check once and prints one line per check
cd "$(dirname "$0")/.."
seed=${1:-1}; tier=${2:-quick}
for id in $(python3 -c "import json;print(' '.join(c['property_id'] for c in json.load(open('MANIFEST.json'))['checks']))"); do
  out=$(VERIF_SEED=$seed ./check $id $tier 2>&1); rc=$?
  echo "$id rc=$rc $(echo "$out" | grep -m1 "seed=" | cut -c1-150) $(echo "$out" | grep -c '^VIOLATION') viol $(echo "$out" | grep -c '^KNOWN-FINDING') known $(echo "$out" | grep -c '^INCONCLUSIVE\|^BROKEN') inconcl"
done
